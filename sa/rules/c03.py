"""C03 - unit conversion preserves the physical quantity."""
from .. import facts as F
from .. import flow, tables
from ..absint.core import Const, Agg
from ..absint.term import Sym, T, K
from .common import anchor, census
from . import c05
from . import unitops as U

LEVEL = "other"


def r1_prefixes(facts, rep):
    rep.rule("C03-R1", "prefixes = SI: the Prefix::* exponent constants equal the SI table; the PREFIXES lookup array pairs each "
                       "constant with the variant of the same name and is sorted ascending (the binary_search precondition); the "
                       "Display symbols of Prefix are the SI symbols; the generated prefix tokens add the same constants (C05-R1)")
    si = c05.load_ref("si_prefixes").PREFIXES
    consts = {k[1].split("::")[-1]: int(v["val"]) for k, v in facts.consts.items() if k[1].startswith("prefix::Prefix::") and v["val"] is not None and v["ty"] == "i32"}
    rep.floor("C03-R1", "prefix constants", len(consts), 21)
    for name, (sym, exp) in sorted(si.items()):
        rep.ob("C03-R1", "const:%s" % name.upper(), consts.get(name.upper()) == exp, "Prefix::%s = %s, SI 10^%d" % (name.upper(), consts.get(name.upper()), exp),
               sample={"prefix": name, "exponent": consts.get(name.upper())})
    rep.ob("C03-R1", "const:NONE", consts.get("NONE") == 0, "Prefix::NONE = %s" % consts.get("NONE"))
    # the PREFIXES array: evaluated constant via the static evaluator on Prefix::find's promoted / const
    arr = None
    try:
        for (cr, path), k in facts.consts.items():
            pass
        body = facts.fn("prefix::Prefix::find")
        if body is not None:
            for blk, i, s in body.stmts():
                rv = s["rv"]
                ops = [rv.get("op")] if rv["k"] in ("use", "cast") else []
                for o in ops:
                    if o and o["k"] == "const" and "PREFIXES" in (o.get("dbg") or ""):
                        arr = o
    except Exception:  # noqa: BLE001
        pass
    # the array is a `const`: read it from the AST-independent MIR of the constant if present
    pairs = prefix_pairs(facts)
    if rep.ob("C03-R1", "anchor:PREFIXES", pairs is not None, "the PREFIXES table was evaluated"):
        exps = [p[0] for p in pairs]
        rep.ob("C03-R1", "PREFIXES:sorted", exps == sorted(exps) and len(set(exps)) == len(exps), "PREFIXES exponents in order: %s" % exps)
        for e, var in pairs:
            want = next((n for n, (s_, x) in si.items() if x == e), "none" if e == 0 else None)
            rep.ob("C03-R1", "PREFIXES:%s" % var, want is not None and var.lower() == want, "PREFIXES pairs 10^%d with Prefix::%s" % (e, var))
        rep.floor("C03-R1", "PREFIXES entries", len(pairs), 21)
    # Display symbols
    disp = None
    for b in facts.lib_bodies():
        if b.path.startswith("<prefix::Prefix as std::fmt::Display>::fmt"):
            disp = b
    if rep.ob("C03-R1", "anchor:Display", disp is not None, "Display for Prefix found"):
        r = tables.int_match_table(disp)
        n = 0
        if r:
            tbl, other, sw = r
            for v, bid in tbl.items():
                var = facts.variant_by_discr("prefix::Prefix", v)
                sym = None
                for s in disp.blocks[bid]["stmts"]:
                    if s["k"] == "assign" and s["rv"]["k"] == "use" and s["rv"]["op"]["k"] == "const":
                        cv = F.const_val(s["rv"]["op"])
                        if isinstance(cv, int) and s["rv"]["op"].get("ty") == "char":
                            sym = chr(cv)
                        elif isinstance(cv, str):
                            sym = cv
                t = disp.blocks[bid]["term"]["t"]
                if sym is None and t["k"] == "call":
                    for a in t["args"]:
                        if a["k"] == "const":
                            cv = F.const_val(a)
                            if isinstance(cv, str):
                                sym = cv
                        elif a["k"] in ("copy", "move"):
                            for cs in flow.slice_back(disp, a, facts=facts):
                                if cs[0] == "const" and isinstance(cs[1], (int, str)):
                                    sym = chr(cs[1]) if isinstance(cs[1], int) else cs[1]
                if var and var != "None":
                    n += 1
                    want = si.get(var.lower(), (None, None))[0]
                    rep.ob("C03-R1", "symbol:%s" % var, sym == want, "Prefix::%s displays as %r, SI symbol %r" % (var, sym, want))
        rep.floor("C03-R1", "prefix symbols", n, 20)


def prefix_pairs(facts):
    """[(exponent, variant name)] of the PREFIXES const, via the promoted / const MIR that materialises it."""
    for b in facts.all:
        if b.crate != "anything":
            continue
        if b.path in ("prefix::PREFIXES",) or (b.path == "prefix::Prefix::find" and b.promoted >= 0):
            try:
                v = tables.static_value(facts, b.path, b.promoted)
            except tables.StaticEvalError:
                continue
            arr = v
            if isinstance(arr, dict) and arr.get("adt") == "array":
                out = []
                for el in arr["fields"]:
                    if isinstance(el, dict) and len(el["fields"]) == 2 and isinstance(el["fields"][0], int):
                        var = el["fields"][1]
                        out.append((el["fields"][0], var["variant"] if isinstance(var, dict) else str(var)))
                if out:
                    return out
    return None


def r2_r3_factor(facts, rep, tier):
    rep.rule("C03-R2", "every prefix scaling is 10^(prefix*power) of one and the same entry")
    rep.rule("C03-R3", "mirror symmetry of Compound::factor (path summary over symbolic maps): for every combination of "
                       "conversions the value is v * PROD_source[10^(prefix*power), then to-base conversion with the entry's power] "
                       "followed by PROD_target[from-base conversion with the entry's power, then / 10^(prefix*power)] - the target "
                       "side is the reversed inverse of the source side; Compound::mul normalises both operands with the same "
                       "signature [*= 10^(prefix*power), to-base conversion]")
    sizes = [(1, 1)] if tier == "quick" else [(1, 1), (2, 1), (1, 2)]
    for ns, no in sizes:
        res = U.factor_conversion_phase(facts, ns, no)
        if not rep.ob("C03-R3", "anchor:factor:%dx%d" % (ns, no), res is not None, "Compound::factor analysed"):
            return
        n = 0
        for status, log, val, pc in res:
            if status != "true":
                continue
            hs = dict((repr(p), b) for p, b in pc)
            cs = [hs.get("has_conversion(self.unit.key%d)" % i) for i in range(ns)]
            co = [hs.get("has_conversion(other.unit.key%d)" % i) for i in range(no)]
            if None in cs or None in co:
                continue
            n += 1
            want = U.expected_factor_value(ns, no, cs, co)
            rep.ob("C03-R3", "factor:%dx%d:self=%s:other=%s" % (ns, no, cs, co), val == want,
                   "factor computes %r; specified %r" % (val, want), sample={"target_entries": ns, "source_entries": no, "value": repr(val)[:300]})
        rep.floor("C03-R3", "commensurable paths of factor (%dx%d)" % (ns, no), n, 2 ** (ns + no))
    mres = U.mul_summary(facts, False, False)
    if rep.ob("C03-R3", "anchor:mul", mres is not None, "Compound::mul analysed"):
        n = 0
        for r in mres:
            if r["kind"] != "ok":
                continue
            hs = dict((repr(p), b) for p, b in r["pc"])
            for side, sym in (("self", "lhs"), ("other", "rhs")):
                hc = hs.get("has_conversion(%s.unit.key0)" % side)
                st = "%s.unit.state0" % side
                want = T("*", Sym(sym), T("pow", K(10), T("i*", Sym(st + ".prefix"), Sym(st + ".power"))))
                if hc:
                    want = T("conv", want, Sym(st + ".power"), Const(False), Sym("conversion(%s.unit.key0)" % side), T("Eq", T("len", Sym(side + ".unit")), Const(1)))
                got = r[sym]
                n += 1
                rep.ob("C03-R3", "mul:%s:conv=%s" % (sym, hc), got == want, "mul normalises %s to %r; specified %r" % (sym, got, want))
        rep.floor("C03-R3", "normalised operands in mul's summary", n, 4)


def r4_factor_kind(facts, rep):
    rep.rule("C03-R4", "multiplicativity: a Factor conversion multiplies by (numer/denom)^power towards the base units and by "
                       "(numer/denom)^(-power) away from them, with the unmodified power; nothing is done for power 0; all Factor "
                       "tables are positive (C05-R2)")
    r = U.summarize_apply_conversion(facts)
    if not rep.ob("C03-R4", "anchor:apply_conversion", r is not None, "apply_conversion analysed"):
        return
    table, tys = r
    x = Sym("x")
    frac = T("new", Sym("numer"), Sym("denom"))
    for (kind, inverse, sole), res in sorted(table.items()):
        if kind != "Factor":
            continue
        for rr in res:
            if rr[0] in ("undecided", "panic"):
                rep.ob("C03-R4", "Factor:inverse=%s:sole=%s:%s" % (inverse, sole, rr[0]), False, "apply_conversion: %s" % rr[0])
                continue
            status, pc, val, dom, store = rr
            p = T("Neg", Sym("power")) if inverse else Sym("power")
            zero = dom.entails(store, T("Ne", p, Const(0)), False) or dom.entails(store, T("Eq", p, Const(0)))
            want = x if zero else T("*", x, T("pow", frac, p))
            rep.ob("C03-R4", "Factor:inverse=%s:sole=%s:zero=%s" % (inverse, sole, bool(zero)), status == "ok" and val == want,
                   "Factor conversion (inverse=%s) yields %r; specified %r" % (inverse, val, want), sample={"inverse": inverse, "value": repr(val)})
    ut = c05.unit_tables(facts)
    bad = [p for p, e in ut.items() if e["kind"] == "Factor" and not (e["numer"] > 0 and e["denom"] > 0)]
    n = len([1 for e in ut.values() if e["kind"] == "Factor"])
    rep.ob("C03-R4", "factors-positive", not bad, "%d Factor tables, non-positive: %s" % (n, bad))
    rep.floor("C03-R4", "Factor tables", n, 50)


def run(fx, rep, tier):
    from . import foundation as _fnd
    _fnd.units(fx["dev"], rep, "C03-F", fx, tier)
    rep.assume("the algebraic laws (round trip, composition, homogeneity, power/product) follow from these facts for factor "
               "units by commutative-group algebra in Q+ (argued in DESIGN.md, not machine-checked)")
    facts = fx["dev"]
    r1_prefixes(facts, rep)
    r2_r3_factor(facts, rep, tier)
    r4_factor_kind(facts, rep)
    rep.rule("C03-R5", "every unit's dimension table is linear in the power (p -> k*p per base unit), so a power of a unit "
                       "converts by the same power of its factor (shared with C05-R2)")
    rep.rule("C03-R6", "the closure pairs of method-converted scales are exact mutual inverses and equal their defining affine "
                       "maps (shared with C09-R1)")
    sub = type(rep)(rep.prop, rep.tier)
    c05.powers_are_base_only(facts, sub, "C03-R5")
    from . import c09
    c09.r1_maps(facts, sub)
    for o in sub.obls:
        if o["rule"] == "C09-R1":
            o["rule"] = "C03-R6"
        rep.obls.append(o)
    for f in sub.floors:
        rep.floors.append(f)
    rep.rule("C03-R7", "a product or quotient keeps its quantity when units are re-derived: reconstruct sheds from the value exactly "
                       "the power of the unit it inserts (shared with C04-R3)")
    from . import c04
    sub = type(rep)(rep.prop, rep.tier)
    c04.r3_reconstruct(facts, sub)
    for o in sub.obls:
        o["rule"] = "C03-R7"
        rep.obls.append(o)
    rep.rule("C03-R8", "a prefix word is exactly its power of ten and a unit word its standard factor: the generated parser adds "
                       "the SI exponent of the prefix it read (per spelling, = data.toml = the SI table) and every unit's scale "
                       "equals the reference table (shared with C05-R1 and C05-R2)")
    sub = type(rep)(rep.prop, rep.tier)
    tabs_ = c05.r1_generated(facts, sub)
    c05.r2_tables(facts, sub)
    # ... the gram's parse-side bias and the kilogram's display-side bias cancel (the prefix shown is the prefix stored), and a
    # unit written twice in one expression carries the sum of its powers (shared with C05-R3 and C05-R9)
    c05.r3_bias(facts, sub, tabs_)
    c05.r9_update(facts, sub)
    for o in sub.obls:
        if o["rule"] in ("C05-R1", "C05-R2", "C05-R3", "C05-R9"):
            o["key"] = o["rule"] + ":" + o["key"]
            o["rule"] = "C03-R8"
            rep.obls.append(o)
    rep.rule("C03-R9", "only commensurable units convert: Compound::factor compares the two base-dimension maps completely "
                       "(shared with C02-R6)")
    from . import c02
    sub = type(rep)(rep.prop, rep.tier)
    c02.r6_factor(facts, sub)
    for o in sub.obls:
        o["rule"] = "C03-R9"
        rep.obls.append(o)
    rep.rule("C03-R10", "a power of a unit converts by the same power of its factor: `^` multiplies every stored power by n, keeps "
                        "the prefix (it is applied per power when converting) and drops what becomes zero (shared with C04-R1)")
    sub = type(rep)(rep.prop, rep.tier)
    c04.r1_pow_unit(facts, sub)
    for o in sub.obls:
        o["rule"] = "C03-R10"
        rep.obls.append(o)
    rep.rule("C03-R11", "scaling the input scales the output: a zero-point offset (°C, °F) is applied only to a sole scale of power "
                        "one and refused inside products, quotients and powers (shared with C09-R2)")
    sub = type(rep)(rep.prop, rep.tier)
    c09.r2_apply(facts, sub)
    for o in sub.obls:
        o["rule"] = "C03-R11"
        rep.obls.append(o)
    if "rel" in fx:
        sub = type(rep)(rep.prop, rep.tier)
        r2_r3_factor(fx["rel"], sub, "quick")
        r4_factor_kind(fx["rel"], sub)
        for o in sub.obls:
            o["key"] += "[rel]"
            rep.obls.append(o)
