"""C04 - products, quotients and integer powers of quantities are dimensionally exact."""
from .. import facts as F
from ..absint import core
from ..absint.core import Const, Agg, TOP
from ..absint.term import Sym, T, K
from .common import anchor
from . import evalops as E
from . import unitops as U

LEVEL = "other"


def r1_pow_unit(facts, rep):
    rep.rule("C04-R1", "the unit of a power: over all paths of eval::pow (path summary) an Ok result carries "
                       "Compound::pow(base.unit, exponent as i32) when the base has a unit and the (empty) base unit otherwise; "
                       "Compound::pow (path summary over a symbolic entry) multiplies every stored power by n with a checked "
                       "multiplication, keeps the prefix, and drops entries whose power becomes 0 - so a zero exponent yields the "
                       "empty unit and an overflowing power is an error")
    if anchor(rep, "C04-R1", facts, "eval::pow") is None:
        return
    try:
        dom, body, outs, info, why = E.run_pow(facts)
    except core.Undecided as e:
        rep.ob("C04-R1", "pow:summary", False, "undecided: %s" % e)
        return
    if not rep.ob("C04-R1", "pow:loop-idiom", outs is not None, "eval::pow's loop recognised" if outs is not None else why):
        return
    seen = set()
    for o in outs:
        if o.kind != "ret":
            continue
        u = E.unpack(o.value)
        if u[0] != "ok":
            continue
        be = dom.decide(o.store, T("is_empty", Sym("base.unit")))
        unit = E.unit_sym(u[2])
        if be:
            want = Sym("base.unit")
        else:
            want = T("unit_pow", Sym("base.unit"), T("to_i32", Sym("pow.value")))
        ez = dom.decide(o.store, T("is_zero", Sym("pow.value")))
        key = "pow:unit:base_unit_empty=%s:exp_zero=%s" % (be, ez)
        good = unit == want and be is not None
        if not good and ez is True and isinstance(unit, T) and unit.op.startswith("call:") and (
                unit.op.endswith("BTreeMap::<K, V>::new") or unit.op.endswith("::default") or unit.op.endswith("Compound::empty")):
            # x^0 written as the empty unit itself: what Compound::pow(_, 0) yields (every power becomes 0 and is dropped, below)
            good = True
        if key in seen and good:
            continue
        seen.add(key)
        rep.ob("C04-R1", key, good, "eval::pow returns a quantity with unit %r; specified %r" % (unit, want), o.site,
               sample={"unit": repr(unit), "base_unit_empty": be, "exponent_zero": ez})
    classes = {k.split(":exp_zero=")[0] for k in seen}
    rep.floor("C04-R1", "unit classes of pow (base unit empty / non-empty)", len(classes), 2)
    res = U.compound_pow_summary(facts)
    if not rep.ob("C04-R1", "anchor:Compound::pow", res is not None, "Compound::pow analysed"):
        return
    n_some = 0
    for r in res:
        if r["kind"] == "panic":
            rep.ob("C04-R1", "Compound::pow:panic", False, "Compound::pow can panic: %s" % r["value"], r["site"])
            continue
        v = r["value"]
        dom, store = r["dom"], r["store"]
        st = "self.unit.state0"
        prod = T("i*", Sym(st + ".power"), Sym("n"))
        ov = dom.decide(store, T("overflows", prod))
        if isinstance(v, Agg) and v.vname == "None":
            rep.ob("C04-R1", "Compound::pow:None", ov is True, "Compound::pow returns None where the checked product %s" % (
                "overflowed" if ov else "did NOT overflow"), r["site"])
            continue
        if isinstance(v, Agg) and v.vname == "Some":
            n_some += 1
            ins = [e for e in r["log"] if e[0] == "insert"]
            zero = dom.entails(store, T("Ne", prod, Const(0)), False) or dom.entails(store, T("Eq", prod, Const(0)))
            if zero:
                good = not ins
                txt = "a power that becomes 0 inserts %d entr(ies)" % len(ins)
            else:
                want_state = Agg("adt", "compound::State", 0, "State", (prod, Sym(st + ".prefix")))
                good = len(ins) == 1 and ins[0][2] == "self.unit.key0" and ins[0][3] == want_state and ov is False
                txt = "inserts %s; specified (key0, State{power: power*n checked, prefix})" % ([(e[2], repr(e[3])) for e in ins],)
            rep.ob("C04-R1", "Compound::pow:Some:zero=%s" % bool(zero), good, "Compound::pow: " + txt, r["site"], sample={"inserted": [repr(e[3]) for e in ins]})
    rep.ob("C04-R1", "Compound::pow:has-some", n_some >= 2, "%d Some path(s)" % n_some)


def r2_r5_mul(facts, rep):
    rep.rule("C04-R2", "arm agreement in Compound::mul's base merge (path summary): a base of the right operand is inserted with "
                       "power*n when absent and added as power*n when present, removed when the sum is 0; the left operand's bases "
                       "are inserted unchanged")
    rep.rule("C04-R5", "empty side (path summary over the emptiness classes): with an empty left unit the result is the right "
                       "unit with every power multiplied by n and the prefix unchanged (closure body analysed); with an empty right "
                       "unit it is a clone of the left unit; values are untouched")
    for ea, eb in ((True, True), (True, False), (False, True)):
        res = U.mul_summary(facts, ea, eb)
        if not rep.ob("C04-R5", "anchor:mul:%s,%s" % (ea, eb), res is not None, "Compound::mul analysed"):
            return
        cls = "left %s, right %s" % ("empty" if ea else "non-empty", "empty" if eb else "non-empty")
        for r in res:
            if r["kind"] == "panic":
                rep.ob("C04-R5", "mul:%s:panic" % cls, False, "Compound::mul can panic: %s" % r["value"], r["site"])
                continue
            unit = r["unit"]
            untouched = r["lhs"] == Sym("lhs") and r["rhs"] == Sym("rhs")
            if ea:
                # collect(map(iter(other.names), closure))
                good = False
                clos = None
                u = unit
                if isinstance(u, T) and u.op == "collect" and isinstance(u.args[0], T) and u.args[0].op == "map":
                    src, clos = u.args[0].args
                    good = src == T("iter", Sym("other.unit"))
                if not good and isinstance(unit, Agg) and unit.path == "compound::Compound":
                    # an explicit loop instead of map / collect: the new map receives, for the one symbolic entry of the right
                    # unit, (key, State{power * n, prefix}) - or nothing on the path where that product is zero
                    ins = [e for e in r["log"] if e[0] == "insert"]
                    pw = T("i*", Sym("other.unit.state0.power"), Sym("n"))
                    zero = None
                    for p_, b_ in r["pc"]:
                        if isinstance(p_, T) and p_.op in ("Ne", "Eq") and pw in p_.args and Const(0) in p_.args:
                            zero = (not b_) if p_.op == "Ne" else b_
                    want_state = Agg("adt", "compound::State", 0, "State", (pw, Sym("other.unit.state0.prefix")))
                    iterated = any(e[0] == "iterate" and e[1] == "other.unit" for e in r["log"])
                    if iterated and ((zero is True and not ins) or (zero is not True and len(ins) == 1 and ins[0][2] == "other.unit.key0" and ins[0][3] == want_state)):
                        good, clos = True, None
                rep.ob("C04-R5", "mul:%s:shape" % cls, good and r["kind"] == "ok" and untouched,
                       "with an empty left unit mul returns %r (values %s)" % (unit, "untouched" if untouched else "CHANGED"), r["site"])
                if good and isinstance(clos, Agg) and clos.kind == "closure":
                    entry = Agg("tuple", None, None, None, (Sym("unit"), U.state("st")))
                    vals = U.closure_summary(facts, clos.path, (Sym("n"),), entry)
                    want = Agg("tuple", None, None, None, (Sym("unit"), Agg("tuple", None, None, None, (T("i*", Sym("st.power"), Sym("n")), Sym("st.prefix")))))
                    # the closure captures n by reference: its environment field is a Ref; compare structurally modulo that
                    okc = bool(vals) and all(_same_entry(v, want) for v in vals)
                    rep.ob("C04-R5", "mul:%s:closure" % cls, okc, "the mapping closure returns %s; specified (unit, (power*n, prefix))" % ([repr(v) for v in vals],),
                           r["site"], sample={"closure": [repr(v) for v in (vals or [])]})
            else:
                good = r["kind"] == "ok" and isinstance(unit, Agg) and E.unit_sym(unit) == Sym("self.unit") and untouched
                rep.ob("C04-R5", "mul:%s:clone" % cls, good, "with an empty right unit mul returns %r (values %s)" % (unit, "untouched" if untouched else "CHANGED"), r["site"])
    res = U.mul_summary(facts, False, False)
    if res is None:
        return
    n_v = n_o = 0
    for r in res:
        if r["kind"] == "panic":
            rep.ob("C04-R2", "mul:panic", False, "Compound::mul can panic: %s" % r["value"], r["site"])
            continue
        dom, store = r["dom"], r["store"]
        ins = [e for e in r["log"] if e[0] == "insert" and e[1] == "newmap0"]
        rem = [e for e in r["log"] if e[0] == "remove" and e[1] == "newmap0"]
        lkey, rkey = "bases(self.unit).key0", "bases(other.unit).key0"
        want_l = Agg("adt", "compound::State", 0, "State", (Sym("bases(self.unit).pow0"), Const(0)))
        first = [e for e in ins if e[2] == lkey]
        okl = len(first) == 1 and first[0][3] == want_l
        pn = T("i*", Sym("bases(other.unit).pow0"), Sym("n"))
        contains = dom.decide(store, T("contains", Sym("newmap0"), Sym(rkey)))
        if contains is False:
            n_v += 1
            want_r = Agg("adt", "compound::State", 0, "State", (pn, Const(0)))
            second = [e for e in ins if e[2] == rkey]
            rep.ob("C04-R2", "merge:vacant", okl and len(second) == 1 and second[0][3] == want_r,
                   "absent base: inserted %s; specified State{power: power*n, prefix: 0}" % ([repr(e[3]) for e in second],), r["site"])
        elif contains is True:
            n_o += 1
            cells = [k for k in store if isinstance(k, tuple) and len(k) == 2 and k[0] == 0 and isinstance(k[1], int) and k[1] >= 700]
            stored = Sym("stored(newmap0,%s).power" % rkey)
            want_sum = T("i+", stored, pn)
            got = [store[c].field(0) for c in cells if isinstance(store[c], Agg)]
            zero = dom.decide(store, T("Eq", want_sum, Const(0)))
            good = okl and want_sum in got and ((zero is True and len(rem) == 1) or (zero is False and not rem))
            rep.ob("C04-R2", "merge:occupied:sum_zero=%s" % zero, good,
                   "present base: stored power becomes %s (specified %r); removed=%s when the sum %s 0" % ([repr(g) for g in got], want_sum, bool(rem),
                                                                                                      "==" if zero else "!="), r["site"])
    rep.floor("C04-R2", "merge paths (vacant)", n_v, 1)
    rep.floor("C04-R2", "merge paths (occupied)", n_o, 2)


def _same_entry(v, want):
    return repr(v) == repr(want)


def r3_reconstruct(facts, rep):
    rep.rule("C04-R3", "shed = inserted (path summary of reconstruct over one derived unit): the power with which a unit is "
                       "re-derived (mod_power, from bases_match(power*n)) is the one subtracted from its base powers (s*mod_power), "
                       "the one inserted / added for the unit, and the one whose conversion is shed from the value (away from base "
                       "units); a base whose power becomes 0 is removed")
    res = U.reconstruct_summary(facts)
    if not rep.ob("C04-R3", "anchor:reconstruct", res is not None, "reconstruct analysed"):
        return
    n = 0
    for r in res:
        if r["kind"] == "panic":
            rep.ob("C04-R3", "reconstruct:panic", False, "reconstruct can panic: %s" % r["value"], r["site"])
            continue
        log = r["log"]
        bm = [e for e in log if e[0] == "bases_match"]
        if not bm:
            continue
        n += 1
        dom, store = r["dom"], r["store"]
        key = "reconstruct:" + "&".join("%s%s" % ("" if b else "!", repr(p)[:40]) for p, b in r["pc"])
        good = bm[0][1] in (T("i*", Sym("power"), Sym("n")), T("i*", Sym("power"), Sym("side")))
        mp = Sym("mod_power")
        cells = dict(zip([c[2] for c in r["cellnames"]], [r["cells"].get((0, 700 + i)) for i in range(len(r["cellnames"]))]))
        base_has = dom.decide(store, T("contains", Sym("names"), Sym("base")))
        if base_has:
            c = cells.get("base")
            want = T("i-", Sym("stored(names,base).power"), T("i*", Sym("s"), mp))
            good = good and isinstance(c, Agg) and c.field(0) == want
            zero = dom.decide(store, T("Eq", want, Const(0)))
            removed = any(e[0] == "remove" and e[2] == "base" for e in log)
            good = good and ((zero is True and removed) or (zero is False and not removed))
        unit_has = dom.decide(store, T("contains", Sym("names"), Sym("unit")))
        if unit_has is True:
            c = cells.get("unit")
            good = good and isinstance(c, Agg) and c.field(0) == T("i+", Sym("stored(names,unit).power"), mp)
        elif unit_has is False:
            ins = [e for e in log if e[0] == "insert" and e[2] == "unit"]
            good = good and len(ins) == 1 and ins[0][3] == Agg("adt", "compound::State", 0, "State", (mp, Const(0)))
        hc = dom.decide(store, T("has_conversion", Sym("unit")))
        convs = [e for e in log if e[0] == "conv"]
        if hc and r["kind"] == "ok":
            # shed from the value with the power mod_power - times the power with which that value enters the combined
            # result, when reconstruct is told (shedding f^p from a/b is shedding f^-p from b)
            good = good and len(convs) == 1 and convs[0][1] in (mp, T("i*", mp, Sym("side")), T("i*", Sym("side"), mp)) \
                and convs[0][2] == Const(True) and convs[0][3] == Sym("conversion(unit)")
        if hc is False:
            good = good and not convs
        rep.ob("C04-R3", key, good, "reconstruct: bases_match(%r); base cell %r; unit %s; conversions %s" % (
            bm[0][1], cells.get("base"), cells.get("unit") if unit_has else [repr(e[3]) for e in log if e[0] == "insert"],
            [(repr(e[1]), repr(e[2])) for e in convs]), r["site"], sample={"path_condition": [repr(p)[:60] + "=" + str(b) for p, b in r["pc"]]})
    rep.floor("C04-R3", "reconstruct paths with a re-derived unit", n, 6)
    # the scratch table of base powers is the table of the unit at hand: over two derived units, every filling of the table
    # (Unit::powers) starts from an empty one - fresh, or cleared since the last filling, also when the first unit was skipped
    res2 = U.reconstruct_summary(facts, n_items=2)
    if res2 is not None:
        stale = []
        n2 = 0
        for r in res2:
            if r["kind"] == "panic":
                continue
            clean = False
            fills = 0
            for e in r["log"]:
                if e[0] in ("scratch-fresh", "scratch-clear"):
                    clean = True
                elif e[0] == "unit.powers":
                    fills += 1
                    if not clean:
                        stale.append("the base powers of %s are added to a table that still holds those of the unit before" % (e[1],))
                    clean = False
            if fills >= 2:
                n2 += 1
        rep.ob("C04-R3", "reconstruct:scratch-table-per-unit", not stale and n2 >= 1,
               "; ".join(sorted(set(stale))[:2]) if stale else "every unit's base powers are read into an empty table (%d two-unit path(s))" % n2,
               facts.fn(U.reconstruct_name(facts)).site())


def r9_operand_faithful(facts, rep, rule="C04-R9"):
    rep.rule(rule, "a unit is re-derived on the value of the operand it came from (summary of Compound::mul, reconstruct as an "
                   "effect): the caller combines the two values afterwards, which commutes with a multiplicative conversion but "
                   "not with the zero-point offset of a temperature scale - so every call of reconstruct is given the derived "
                   "units of one operand together with that operand's value (and, for the right operand, the power n with which "
                   "its value enters), and between them the calls cover both operands (`3 min/s * 2 °C` = `2 °C * 3 min/s`)")
    res = U.mul_summary(facts, False, False)
    if not rep.ob(rule, "anchor:mul", res is not None, "Compound::mul analysed"):
        return
    bad = []
    n_ok = 0
    for r in res:
        if r["kind"] != "ok":
            continue
        calls = [e for e in r["log"] if e[0] == "reconstruct"]
        covered = set()
        for e in calls:
            der, out, side = e[1], e[2], e[3]
            txt = repr(der)
            sides = {w for w in ("self", "other") if "derived(%s.unit)" % w in txt}
            covered |= sides
            if len(sides) != 1:
                bad.append("reconstruct sheds the units re-derived from %s from one value (%s)" % (" and ".join(sorted(sides)) or "no operand", out))
                continue
            w = next(iter(sides))
            want_out = "lhs" if w == "self" else "rhs"
            if out != want_out:
                bad.append("units derived from the %s operand are shed from %s" % ("left" if w == "self" else "right", out))
            if w == "other" and side != Sym("n"):
                bad.append("units derived from the right operand are shed from its value without the power n it enters with (%r)" % (side,))
            if w == "self" and side is not None and side != Const(1):
                bad.append("units derived from the left operand are shed with side %r" % (side,))
        if calls:
            n_ok += 1
            if covered != {"self", "other"}:
                bad.append("the derived units of %s are never re-derived" % sorted({"self", "other"} - covered))
    rep.ob(rule, "mul:re-derivation-by-operand", not bad and n_ok >= 1, "; ".join(sorted(set(bad))[:3]) if bad else
           "every re-derivation sheds a unit from the value of the operand it came from (%d path(s))" % n_ok, facts.fn("compound::Compound::mul").site())


def r4_wiring(facts, rep):
    rep.rule("C04-R4", "wiring: eval::mul calls Compound::mul with n = 1 and multiplies the normalised values, eval::div with "
                       "n = -1 and divides them; the result carries the unit Compound::mul returned (path summaries)")
    for fn, op, n in (("mul", "*", 1), ("div", "/", -1)):
        if anchor(rep, "C04-R4", facts, "eval::" + fn) is None:
            continue
        for ea, eb in E.EMPTY_CLASSES:
            cls = "%s,%s" % ("empty" if ea else "non-empty", "empty" if eb else "non-empty")
            try:
                dom, it, body, outs = E.run_binop(facts, fn, ea, eb)
            except core.Undecided as e:
                rep.ob("C04-R4", "%s:%s" % (fn, cls), False, "undecided: %s" % e)
                continue
            for o in outs:
                if o.kind != "ret":
                    continue
                u = E.unpack(o.value)
                if u[0] != "ok":
                    continue
                nn = Const(n)
                want_v = T(op, T("mul_lhs", Sym("a.value"), Sym("a.unit"), Sym("b.unit"), nn), T("mul_rhs", Sym("b.value"), Sym("a.unit"), Sym("b.unit"), nn))
                want_u = T("unit_mul", Sym("a.unit"), Sym("b.unit"), nn)
                rep.ob("C04-R4", "%s:%s" % (fn, cls), u[1] == want_v and E.unit_sym(u[2]) == want_u,
                       "eval::%s returns (%r, %r); specified (%r, %r)" % (fn, u[1], E.unit_sym(u[2]), want_v, want_u), o.site,
                       sample={"fn": fn, "n": n})


def run(fx, rep, tier):
    from . import foundation as _fnd
    _fnd.units(fx["dev"], rep, "C04-F", fx, tier)
    rep.assume("not decided: that the reconstruction heuristic (bases_match / inner_match) picks a value-preserving power for "
               "every mix of units; per step the value bookkeeping is R3")
    for cfg, facts in fx.items():
        sub = rep if cfg == "dev" else type(rep)(rep.prop, rep.tier)
        r1_pow_unit(facts, sub)
        r2_r5_mul(facts, sub)
        r3_reconstruct(facts, sub)
        r4_wiring(facts, sub)
        r9_operand_faithful(facts, sub)
        if cfg == "dev":
            from . import c05, c19
            rep.rule("C04-R6", "base dimensions are a multiple of the power: every unit's dimension table is linear in the power "
                               "(p -> k*p for every base unit), so Pa^2, Pa*Pa and (Pa)^2 have the same base dimensions (shared "
                               "with C05-R2 / C13-R4)")
            s2 = type(rep)(rep.prop, rep.tier)
            c05.powers_are_base_only(facts, s2, "C04-R6")
            for o in s2.obls:
                rep.obls.append(o)
            for f in s2.floors:
                rep.floors.append(f)
            s2 = type(rep)(rep.prop, rep.tier)
            c19.r7_unit_exponent(facts, s2, "C04-R7")
            rep.rules["C04-R7"] = "the dimension shown is the dimension computed: " + s2.rules["C04-R7"] + " (shared with C19-R7)"
            for o in s2.obls:
                rep.obls.append(o)
            # an expression tree over * / ^ is the tree the grammar builds: `a / b^n / c` divides twice
            from . import c06
            rep.rule("C04-R8", "every mix of * / ^ is grouped as the grammar prescribes before it is evaluated: the priority levels "
                               "(C06-R1) and the precedence and left associativity of the operator stack (inductive, C06-R6)")
            s8 = type(rep)(rep.prop, rep.tier)
            pr = c06.r1_table(facts, s8)
            if pr is not None:
                c06.r6_stack(facts, s8, pr, "quick")
            for o in s8.obls:
                o["rule"] = "C04-R8"
                rep.obls.append(o)
        if cfg == "dev":
            # an integer power equals repeated multiplication and a zero power is the dimensionless one - also for a base
            # that is zero ((0 m)^0 = 1): the piecewise summary of eval::pow
            from . import c01
            rep.rule("C04-R10", "the value of a power: eval::pow returns base^n on every path, 1 for n = 0 whatever the base, an "
                                "error for a zero base with a negative exponent (piecewise summary of eval::pow, shared with C01-R4)")
            s10 = type(rep)(rep.prop, rep.tier)
            c01.r4_operators(facts, s10)
            for o in s10.obls:
                if o["rule"] == "C01-R4" and o["key"].startswith("pow"):
                    o["rule"] = "C04-R10"
                    rep.obls.append(o)
        if sub is not rep:
            for o in sub.obls:
                o["key"] += "[rel]"
                rep.obls.append(o)
