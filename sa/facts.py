"""Loading and indexing of the anyscan fact files."""
import json
import os


class Body:
    def __init__(self, j, crate):
        self.j = j
        self.crate = crate
        self.path = j["path"]
        self.promoted = j["promoted"]
        self.kind = j["kind"].split(" ")[0]
        self.span = j["span"]
        self.arg_count = j["arg_count"]
        self.locals = j["locals"]
        self.blocks = j["blocks"]
        self._cfg = None

    @property
    def file(self):
        return self.span["file"]

    def site(self, span=None):
        sp = span or self.span
        return "%s:%d" % (sp["file"], sp["line"])

    def from_derive(self):
        return any("derive" in m for m in self.span["macros"])

    def local_ty(self, n):
        return self.locals[n]["ty"]

    def local_name(self, n):
        return self.locals[n]["name"]

    def named(self, name):
        return [l["id"] for l in self.locals if l["name"] == name]

    def terms(self):
        for b in self.blocks:
            if b["cleanup"]:
                continue
            yield b, b["term"]["t"], b["term"]["span"]

    def calls(self, pred=None):
        """Yield (block, term, span, callee-name) for non-cleanup call terminators."""
        for b, t, sp in self.terms():
            if t["k"] != "call":
                continue
            name = callee(t)
            if pred is None or pred(name):
                yield b, t, sp, name

    def stmts(self):
        for b in self.blocks:
            if b["cleanup"]:
                continue
            for i, s in enumerate(b["stmts"]):
                if s["k"] == "assign":
                    yield b, i, s

    @property
    def cfg(self):
        if self._cfg is None:
            from . import cfg
            self._cfg = cfg.CFG(self)
        return self._cfg


def callee(t):
    """Resolved callee path of a call terminator ('' for indirect calls)."""
    c = t["callee"]
    if c["k"] != "direct":
        return ""
    return c.get("resolved") or c["path"]


def callee_decl(t):
    c = t["callee"]
    return c["path"] if c["k"] == "direct" else ""


def is_indirect(t):
    return t["callee"]["k"] != "direct"


def op_local(o):
    """Local number if the operand is a bare copy/move of a local, else None."""
    if o["k"] in ("copy", "move") and not o["place"]["proj"]:
        return o["place"]["local"]
    return None


def op_place(o):
    return o["place"] if o["k"] in ("copy", "move") else None


def const_val(o):
    """Python value of a constant operand: int for integers/bools/chars, str for &str, None otherwise."""
    if o["k"] != "const":
        return None
    v = o.get("val")
    if v is None:
        return None
    ty = o.get("ty", "")
    if ty in ("&str", "&'static str") or ty.startswith("&") and "str" in ty:
        return v
    try:
        return int(v)
    except (TypeError, ValueError):
        return v


def place_key(p):
    return (p["local"], tuple(_pk(e) for e in p["proj"]))


def _pk(e):
    k = e["k"]
    if k == "field":
        return ("field", e["i"], e.get("name", ""))
    if k == "downcast":
        return ("downcast", e["i"], e.get("variant", ""))
    if k == "index":
        return ("index", e["local"])
    return (k,)


def place_fields(p):
    """Names of field projections, in order (derefs and downcasts dropped)."""
    return [e.get("name", "") for e in p["proj"] if e["k"] == "field"]


class Facts:
    def __init__(self, d):
        self.dir = d
        self.crates = {}
        # functions renamed or moved against the reference tree are read under the name the rules know (sa/aliases.py)
        from . import aliases as _al
        self.aliases = {}
        for name in ("anything", "any"):
            j, al = _al.load_crate(os.path.join(d, name + ".mir.json"), name)
            self.crates[name] = j
            for n, o in al.items():
                self.aliases["%s::%s" % (name, o)] = n
        self.bodies = {}  # (crate, path) -> Body (main)
        self.proms = {}  # (crate, path, idx) -> Body
        self.all = []
        for cname, c in self.crates.items():
            for j in c["fns"]:
                b = Body(j, cname)
                self.all.append(b)
                if b.promoted < 0:
                    # closures in generic positions may share def_path_str; keep the first, list the rest
                    self.bodies.setdefault((cname, b.path), b)
                else:
                    self.proms[(cname, b.path, b.promoted)] = b
        self.consts = {}
        for cname, c in self.crates.items():
            for k in c["consts"]:
                self.consts[(cname, k["path"])] = k
        self.adts = {}
        for cname, c in self.crates.items():
            for a in c["adts"]:
                self.adts[(cname, a["path"])] = a
        self.ast = {}
        for cname, c in self.crates.items():
            for a in c["ast"]:
                self.ast[(cname, (a["module"] + "::" if a["module"] else "") + a["name"])] = a

    def fn(self, path, crate="anything"):
        return self.bodies.get((crate, path))

    def promoted(self, path, idx, crate="anything"):
        return self.proms.get((crate, path, idx))

    def lib_bodies(self, hand_written=False):
        for b in self.all:
            if b.crate != "anything" or b.promoted >= 0:
                continue
            if hand_written and (b.from_derive() or b.file.startswith("src/generated/") or not b.file.startswith("src/")):
                continue
            yield b

    def iterator_impl(self, adt_path, crate="anything"):
        """Path of the crate-local `Iterator::next` of an ADT, or None."""
        cache = self.__dict__.setdefault("_iter_impl", {})
        if adt_path not in cache:
            hit = None
            for b in self.all:
                p = b.path
                if p.startswith("<" + adt_path) and p.endswith(" as std::iter::Iterator>::next"):
                    hit = p
            cache[adt_path] = hit
        return cache[adt_path]

    def const(self, path, crate="anything"):
        k = self.consts.get((crate, path))
        if k is None or k["val"] is None:
            return None
        try:
            return int(k["val"])
        except ValueError:
            return k["val"]

    def adt(self, path, crate="anything"):
        return self.adts.get((crate, path))

    def variant_by_discr(self, adt_path, discr, crate="anything"):
        a = self.adt(adt_path, crate)
        if not a:
            return None
        for v in a["variants"]:
            if v["discr"] is not None and int(v["discr"]) == int(discr):
                return v["name"]
        return None

    def discr_of(self, adt_path, variant, crate="anything"):
        a = self.adt(adt_path, crate)
        if not a:
            return None
        for v in a["variants"]:
            if v["name"] == variant:
                return int(v["discr"])
        return None


def bytes_const(o):
    """Value of a byte-string constant operand (parsed from rustc's rendering b"..."), else None."""
    if o.get("k") != "const":
        return None
    d = o.get("dbg") or ""
    if not (d.startswith('b"') and d.endswith('"')):
        return None
    body = d[2:-1]
    out = bytearray()
    i = 0
    while i < len(body):
        c = body[i]
        if c == "\\":
            n = body[i + 1]
            if n == "x":
                out.append(int(body[i + 2:i + 4], 16))
                i += 4
                continue
            out.append({"n": 10, "t": 9, "r": 13, "0": 0, "\\": 92, '"': 34, "'": 39}.get(n, ord(n)))
            i += 2
            continue
        out.extend(c.encode("utf-8"))
        i += 1
    return bytes(out)


def fmt_template(bs):
    """Decode a core::fmt template (rustc >= 1.9x encoding): list of str literals and None for an argument."""
    out = []
    i = 0
    while i < len(bs):
        b = bs[i]
        if b == 0:
            break
        if b >= 0x80:
            out.append(None)
            i += 1
            continue
        out.append(bs[i + 1:i + 1 + b].decode("utf-8", "replace"))
        i += 1 + b
    return out
