"""Call graph over the resolved callees of one crate's bodies."""
from . import facts as F
from . import tables


class CallGraph:
    def __init__(self, facts, crate="anything"):
        self.facts = facts
        self.crate = crate
        self.local = {b.path: b for b in facts.all if b.crate == crate and b.promoted < 0}
        self.edges = {}  # path -> set of callee paths (local or external)
        self.sites = {}  # (caller, callee) -> [(block id, span)]
        for p, b in self.local.items():
            out = set()
            for blk, t, sp, name in b.calls():
                if name:
                    out.add(name)
                    self.sites.setdefault((p, name), []).append((blk["id"], sp))
                # function items passed as values (fn pointers, closures handed to adaptors)
            for blk, i, s in b.stmts():
                rv = s["rv"]
                ops = []
                if rv["k"] in ("use", "cast"):
                    ops = [rv["op"]]
                elif rv["k"] == "aggregate":
                    ops = rv["ops"]
                    if rv["kind"]["k"] == "closure":
                        out.add(rv["kind"]["path"])
                for o in ops:
                    if o["k"] == "fn":
                        out.add(o["path"])
            for blk, t, sp in b.terms():
                if t["k"] == "call":
                    for a in t["args"]:
                        if a["k"] == "fn":
                            out.add(a["path"])
            self.edges[p] = out
        # the two function-pointer tables of the crate
        bt = tables.builtin_table(facts)
        if "eval::eval" in self.edges:
            self.edges["eval::eval"] |= {v for v in bt.values() if v}
            self.edges["eval::eval"].add("eval::builtin")

    def reachable(self, roots, stop=()):
        seen = set()
        work = [r for r in roots]
        while work:
            x = work.pop()
            if x in seen or x in stop:
                continue
            seen.add(x)
            for y in self.edges.get(x, ()):
                if y not in seen:
                    work.append(y)
            # closures nested in a reachable function are reachable
            if x in self.local:
                for p in self.local:
                    if p.startswith(x + "::{closure") and p not in seen:
                        work.append(p)
        return seen

    def callers_of(self, path):
        return {p for p, out in self.edges.items() if path in out}

    def exclusive(self, root):
        """root (or a set of roots) and the local functions (and closures) that are only ever referred to from the roots'
        own exclusive call tree: their private helpers, however the bodies are split up."""
        roots = [root] if isinstance(root, str) else list(root)
        reach = {p for p in self.reachable(roots) if p in self.local}
        excl = set(roots)
        changed = True
        while changed:
            changed = False
            for p in sorted(reach - excl):
                cs = self.callers_of(p)
                owner = p.split("::{closure")[0]
                if "::{closure" in p and owner in excl:
                    excl.add(p)
                    changed = True
                elif cs and cs <= excl:
                    excl.add(p)
                    changed = True
        return excl

    def path_to(self, roots, pred, stop=()):
        """Shortest call chain from a root to a callee satisfying pred: list of paths, or None."""
        from collections import deque
        prev = {}
        dq = deque()
        for r in roots:
            prev[r] = None
            dq.append(r)
        while dq:
            x = dq.popleft()
            if pred(x) and prev[x] is not None:
                chain = [x]
                while prev[chain[-1]] is not None:
                    chain.append(prev[chain[-1]])
                return list(reversed(chain))
            if x in stop:
                continue
            nxt = set(self.edges.get(x, ()))
            if x in self.local:
                nxt |= {p for p in self.local if p.startswith(x + "::{closure")}
            for y in nxt:
                if y not in prev:
                    prev[y] = x
                    dq.append(y)
        return None
