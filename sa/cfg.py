"""Control-flow graph services over one MIR body (cleanup blocks ignored)."""


def succs_of(b):
    t = b["term"]["t"]
    k = t["k"]
    if k in ("goto", "drop", "assert"):
        return [t["target"]]
    if k == "call":
        return [t["target"]] if t["target"] >= 0 else []
    if k == "switch":
        out = []
        for _, x in t["targets"]:
            if x not in out:
                out.append(x)
        if t["otherwise"] not in out:
            out.append(t["otherwise"])
        return out
    return []


class CFG:
    def __init__(self, body):
        self.body = body
        self.n = len(body.blocks)
        self.succ = {}
        self.pred = {i: [] for i in range(self.n)}
        for b in body.blocks:
            if b["cleanup"]:
                self.succ[b["id"]] = []
                continue
            ss = [s for s in succs_of(b) if not body.blocks[s]["cleanup"]
                  and body.blocks[s]["term"]["t"]["k"] != "unreachable"]
            self.succ[b["id"]] = ss
        for a, ss in self.succ.items():
            for s in ss:
                self.pred[s].append(a)
        self.reach0 = self.reachable_from(0)
        self.returns = [b["id"] for b in body.blocks if not b["cleanup"] and b["term"]["t"]["k"] == "return"
                        and b["id"] in self.reach0]
        self._dom = None
        self._pdom = None

    # ---- reachability ------------------------------------------------------------------------
    def reachable_from(self, start, avoid=(), succ=None):
        succ = succ or self.succ
        avoid = set(avoid)
        if start in avoid:
            return set()
        seen = {start}
        work = [start]
        while work:
            x = work.pop()
            for s in succ[x]:
                if s not in seen and s not in avoid:
                    seen.add(s)
                    work.append(s)
        return seen

    def reachable_after(self, start, avoid=()):
        """Blocks reachable from the successors of start (start itself only if on a cycle)."""
        out = set()
        for s in self.succ[start]:
            out |= self.reachable_from(s, avoid)
        return out

    def edge_reach(self, frm, to, avoid=()):
        """Blocks reachable when leaving `frm` through the edge to `to`."""
        return self.reachable_from(to, avoid)

    def every_path_passes(self, src, dst_set, through):
        """True iff every path from block src to any block in dst_set contains a block in `through`
        (src and dst themselves count)."""
        through = set(through)
        if src in through:
            return True
        r = self.reachable_from(src, avoid=through)
        return not (r & set(dst_set))

    # ---- dominators --------------------------------------------------------------------------
    def _doms(self, entry, succ, pred, nodes):
        dom = {n: None for n in nodes}
        dom[entry] = {entry}
        allnodes = set(nodes)
        changed = True
        order = list(nodes)
        while changed:
            changed = False
            for n in order:
                if n == entry:
                    continue
                ps = [dom[p] for p in pred[n] if dom.get(p) is not None]
                if not ps:
                    continue
                new = set.intersection(*ps) | {n}
                if new != dom[n]:
                    dom[n] = new
                    changed = True
        for n in nodes:
            if dom[n] is None:
                dom[n] = set(allnodes)  # unreachable: dominated by everything (vacuous)
        return dom

    @property
    def dom(self):
        if self._dom is None:
            nodes = sorted(self.reach0)
            self._dom = self._doms(0, self.succ, self.pred, nodes)
        return self._dom

    def dominates(self, a, b):
        """Block a dominates block b."""
        d = self.dom.get(b)
        return d is not None and a in d

    @property
    def pdom(self):
        """Post-dominators w.r.t. normal return (virtual exit = -1 joined from every return block)."""
        if self._pdom is None:
            nodes = sorted(self.reach0) + [-1]
            rsucc = {n: list(self.pred.get(n, [])) for n in self.reach0}
            rsucc[-1] = list(self.returns)
            rpred = {n: list(self.succ.get(n, [])) for n in self.reach0}
            for r in self.returns:
                rpred[r] = rpred[r] + [-1]
            rpred[-1] = []
            # only nodes that can reach the exit matter
            self._pdom = self._doms(-1, rsucc, rpred, nodes)
        return self._pdom

    def postdominates(self, a, b):
        d = self.pdom.get(b)
        return d is not None and a in d

    # ---- switch helpers ----------------------------------------------------------------------
    def switch_targets(self, bid):
        t = self.body.blocks[bid]["term"]["t"]
        assert t["k"] == "switch"
        m = {}
        for v, x in t["targets"]:
            m[int(v)] = x
        return m, t["otherwise"]

    def blocks_only_via_edge(self, frm, to):
        """Blocks that are reachable from `to` and dominated by the edge frm->to, i.e. every path from
        entry to them passes that edge.  Computed as: reachable from entry when the edge is removed is R';
        the answer is reach0 - R'."""
        succ2 = {k: list(v) for k, v in self.succ.items()}
        # remove exactly that edge (a switch may list the same target for several values: all removed)
        succ2[frm] = [s for s in succ2[frm] if s != to]
        r = self.reachable_from(0, succ=succ2)
        return self.reach0 - r


def liveness(body):
    """(live_in per block, address-taken locals).  Locals whose address is taken are treated as always live."""
    addr = set()
    use = {}
    dfn = {}

    def op_uses(o, acc):
        if o["k"] in ("copy", "move"):
            acc.add(o["place"]["local"])
            for e in o["place"]["proj"]:
                if e["k"] == "index":
                    acc.add(e["local"])

    for b in body.blocks:
        u, d = set(), set()

        def use_(l):
            if l not in d:
                u.add(l)

        for s in b["stmts"]:
            if s["k"] != "assign":
                continue
            rv = s["rv"]
            acc = set()
            k = rv["k"]
            if k in ("use", "cast"):
                op_uses(rv["op"], acc)
            elif k in ("ref", "rawptr"):
                addr.add(rv["place"]["local"])
                acc.add(rv["place"]["local"])
            elif k == "binop":
                op_uses(rv["a"], acc)
                op_uses(rv["b"], acc)
            elif k == "unop":
                op_uses(rv["a"], acc)
            elif k == "discr":
                acc.add(rv["place"]["local"])
            elif k == "repeat":
                op_uses(rv["op"], acc)
            elif k == "aggregate":
                for o in rv["ops"]:
                    op_uses(o, acc)
            for l in acc:
                use_(l)
            p = s["place"]
            if p["proj"]:
                use_(p["local"])
                for e in p["proj"]:
                    if e["k"] == "index":
                        use_(e["local"])  # a[i] = ..: the index is read
            else:
                d.add(p["local"])
        t = b["term"]["t"]
        acc = set()
        if t["k"] == "switch":
            op_uses(t["discr"], acc)
        elif t["k"] == "assert":
            op_uses(t["cond"], acc)
        elif t["k"] == "drop":
            acc.add(t["place"]["local"])
        elif t["k"] == "call":
            for a in t["args"]:
                op_uses(a, acc)
            if t["callee"]["k"] != "direct":
                op_uses(t["callee"]["op"], acc)
        elif t["k"] == "return":
            acc.add(0)
        for l in acc:
            use_(l)
        if t["k"] == "call":
            if t["dest"]["proj"]:
                use_(t["dest"]["local"])
            # the destination is defined on the edge to the target; treat as def at block end
            else:
                d.add(t["dest"]["local"])
        use[b["id"]] = u
        dfn[b["id"]] = d
    live_in = {b["id"]: set() for b in body.blocks}
    succ = {b["id"]: succs_of(b) for b in body.blocks}
    changed = True
    while changed:
        changed = False
        for b in reversed(body.blocks):
            i = b["id"]
            out = set()
            for s in succ[i]:
                out |= live_in[s]
            new = use[i] | (out - dfn[i])
            if new != live_in[i]:
                live_in[i] = new
                changed = True
    return live_in, addr
