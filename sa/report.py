"""Obligations, known findings, evidence and replay files."""
import json
import os
import time

VERIF = os.path.dirname(os.path.dirname(os.path.abspath(__file__)))


class Report:
    def __init__(self, prop, tier, level="other"):
        self.prop = prop
        self.tier = tier
        self.level = level
        self.t0 = time.time()
        self.obls = []  # dicts
        self.floors = []  # (rule, what, count, floor)
        self.assumptions = []
        self.analysed = {}  # free-form coverage counters
        self.rules = {}  # rule id -> text
        self.only = None  # replay: (rule, key)

    # ---- declaring -------------------------------------------------------------------------
    def rule(self, rid, text):
        self.rules[rid] = text

    def assume(self, text):
        if text not in self.assumptions:
            self.assumptions.append(text)

    def count(self, name, n=1):
        self.analysed[name] = self.analysed.get(name, 0) + n

    def ob(self, rule, key, ok, detail="", site=None, nontrivial=True, sample=None, excerpt=None):
        """One obligation.  key identifies the instance without line numbers."""
        if self.only is not None and (rule, key) != self.only:
            return ok
        self.obls.append({
            "rule": rule, "key": key, "ok": bool(ok), "detail": detail, "site": site or "",
            "nontrivial": nontrivial, "sample": sample, "excerpt": excerpt,
        })
        return ok

    def floor(self, rule, what, count, floor):
        """Fail closed when a rule matched fewer instances than were confirmed by reading."""
        self.floors.append((rule, what, count, floor))
        if self.only is not None:
            return
        if count < floor:
            self.obls.append({
                "rule": rule, "key": "floor:" + what, "ok": False,
                "detail": "anchor moved or instances vanished: %s matched %d instance(s), at least %d confirmed by "
                          "reading (this is 'the checker lost its anchor', not necessarily 'the property is broken')"
                          % (what, count, floor),
                "site": "", "nontrivial": True, "sample": None, "excerpt": None,
            })

    # ---- finishing -------------------------------------------------------------------------
    def finish(self, info=None):
        known = load_known()
        kmap = {}
        for k in known.get("findings", []):
            if k.get("property") == self.prop:
                kmap[(k["rule"], k["key"])] = k
        violations = []
        known_hits = []
        for o in self.obls:
            if o["ok"]:
                continue
            k = kmap.get((o["rule"], o["key"]))
            if k is not None:
                known_hits.append((o, k))
            else:
                violations.append(o)
        out = []
        seen = set()
        for o, k in known_hits:
            if (o["rule"], o["key"]) in seen:
                continue
            seen.add((o["rule"], o["key"]))
            out.append("KNOWN-FINDING: property=%s rule=%s key=%s %s [%s]" % (
                self.prop, o["rule"], o["key"], k.get("what", ""), o["site"]))
        replay_dir = os.path.join(VERIF, "evidence", "replay")
        for n, o in enumerate(violations):
            os.makedirs(replay_dir, exist_ok=True)
            path = os.path.join(replay_dir, "%s-%d.json" % (self.prop, n))
            with open(path, "w") as fh:
                json.dump({"property": self.prop, "rule": o["rule"], "key": o["key"], "site": o["site"],
                           "detail": o["detail"], "excerpt": o["excerpt"],
                           "rule_text": self.rules.get(o["rule"], "")}, fh, indent=1)
            out.append("%s: rule %s instance %s: %s" % (o["site"] or "(no site)", o["rule"], o["key"], o["detail"]))
            out.append("VIOLATION property=%s replay=%s" % (self.prop, path))
        total = len(self.obls)
        ok = sum(1 for o in self.obls if o["ok"])
        distinct = len({(o["rule"], o["key"]) for o in self.obls if o["nontrivial"]})
        samples = []
        per_rule = {}
        for o in self.obls:
            per_rule.setdefault(o["rule"], [0, 0])
            per_rule[o["rule"]][0] += 1
            per_rule[o["rule"]][1] += 1 if o["ok"] else 0
        seen_rules = set()
        for o in self.obls:
            if o["rule"] in seen_rules or not o["ok"]:
                continue
            seen_rules.add(o["rule"])
            samples.append({"rule": o["rule"], "instance": o["key"], "site": o["site"],
                            "what": o["detail"] if o["detail"] else self.rules.get(o["rule"], ""),
                            **({"data": o["sample"]} if o["sample"] is not None else {})})
        if not samples:
            samples = [{"rule": o["rule"], "instance": o["key"], "site": o["site"], "ok": o["ok"]} for o in self.obls[:3]]
        cov = {
            "evaluations": total,
            "distinct_nontrivial": distinct,
            "rule": "obligations are enumerated from the MIR/AST/const facts of /repo's current tree by the rules listed "
                    "under 'rules'; an obligation is one (rule, instance) pair, distinct by its instance key "
                    "(function path + construct, never a line number), non-trivial when it matched a real construct "
                    "in this run's facts",
            "samples": samples[:12],
            "obligations": total,
            "discharged": ok,
            "known_findings_hit": len(seen),
            "per_rule": {r: {"obligations": v[0], "held": v[1]} for r, v in sorted(per_rule.items())},
            "floors": [{"rule": r, "what": w, "matched": c, "floor": f} for r, w, c, f in self.floors],
            "analysed": self.analysed,
            "rules": self.rules,
            "explanation": "static analysis of /repo's type-checked MIR (rustc_private driver 'anyscan'), expanded AST "
                           "attributes, evaluated constants and shipped data files; nothing of the repository is executed. "
                           "Each obligation is a rule instance found in this run's facts; see 'rules' and 'per_rule'.",
            "exhaustive": False,
            "facts": info or {},
        }
        ev = {
            "property_id": self.prop,
            "tier": self.tier,
            "seed": int(os.environ.get("VERIF_SEED", "0") or 0),
            "level": self.level,
            "coverage": cov,
            "assumptions": self.assumptions,
            "wall_s": round(time.time() - self.t0, 3),
            "violations": len(violations),
        }
        if self.only is None:
            os.makedirs(os.path.join(VERIF, "evidence"), exist_ok=True)
            with open(os.path.join(VERIF, "evidence", self.prop + ".json"), "w") as fh:
                json.dump(ev, fh, indent=1, default=str)
        return out, len(violations), ev


def load_known():
    p = os.path.join(VERIF, "known_findings.json")
    if not os.path.exists(p):
        return {"findings": [], "fixed": []}
    with open(p) as fh:
        return json.load(fh)
