"""Path-wise interval exploration of the integer locals of one function.

The function is explored from its entry with every parameter ranging over its whole type; integer locals carry an interval,
booleans that come from a comparison remember it (so that the branch taken narrows the compared locals), checked arithmetic
carries "can this overflow".  Loops are unrolled path by path - a loop whose trip count is bounded by the width of a type
(`while power != 0 { power /= 10 }` on a u32) ends by itself; anything else exhausts the step budget and the exploration
is *not completed* (nothing is concluded from it).  Everything the exploration does not follow (calls, memory, locals whose
address is taken) is the whole range of its type, so "this assertion holds on every explored path" is sound.

analyse(body) -> (completed, may_fail) with may_fail the set of block ids whose `assert` terminator can fail."""
from . import cfg as _cfg

INF = float("inf")
RANGES = {"u8": (0, 2 ** 8 - 1), "u16": (0, 2 ** 16 - 1), "u32": (0, 2 ** 32 - 1), "u64": (0, 2 ** 64 - 1), "usize": (0, 2 ** 64 - 1),
          "u128": (0, 2 ** 128 - 1), "i8": (-2 ** 7, 2 ** 7 - 1), "i16": (-2 ** 15, 2 ** 15 - 1), "i32": (-2 ** 31, 2 ** 31 - 1),
          "i64": (-2 ** 63, 2 ** 63 - 1), "isize": (-2 ** 63, 2 ** 63 - 1), "i128": (-2 ** 127, 2 ** 127 - 1), "bool": (0, 1),
          "char": (0, 0x10FFFF)}


class V:
    """An abstract value: interval [lo, hi]; origin = (local, version) it is a copy of; rel = (op, a, b) for a comparison
    result with a, b = ('l', local, version) | ('c', value); ovf for the flag of a checked operation (False = never)."""
    __slots__ = ("lo", "hi", "origin", "rel", "pair")

    def __init__(self, lo, hi, origin=None, rel=None, pair=None):
        self.lo, self.hi, self.origin, self.rel, self.pair = lo, hi, origin, rel, pair

    def key(self):
        return (self.lo, self.hi, self.origin, self.rel, self.pair.key() if isinstance(self.pair, V) else self.pair)


TOP = V(-INF, INF)


def ty_range(ty):
    return RANGES.get(ty.strip())


def analyse(body, budget=6000):
    live, addr = _cfg.liveness(body)
    addr = set(addr)

    def lty(n):
        return body.local_ty(n)

    def fresh(n):
        r = ty_range(lty(n))
        return V(r[0], r[1]) if r else TOP

    def const_val(o):
        v = o.get("val")
        if v is None:
            return None
        if v in ("true", "false"):
            return 1 if v == "true" else 0
        try:
            return int(v)
        except (TypeError, ValueError):
            return None

    def read(st, o):
        """-> V"""
        if o["k"] == "const":
            c = const_val(o)
            return V(c, c) if c is not None else TOP
        if o["k"] not in ("copy", "move"):
            return TOP
        p = o["place"]
        n = p["local"]
        if n in addr:
            return fresh(n) if not p["proj"] else TOP
        v = st["v"].get(n)
        if not p["proj"]:
            if v is None:
                v = fresh(n)
            if v.origin is None and v.pair is None:
                return V(v.lo, v.hi, (n, st["ver"].get(n, 0)), v.rel)
            return v
        if len(p["proj"]) == 1 and p["proj"][0]["k"] == "field" and v is not None and isinstance(v.pair, V):
            if p["proj"][0]["i"] == 0:
                return V(v.lo, v.hi)
            return v.pair  # the overflow flag as a V over {0,1}
        return TOP

    def write(st, n, v):
        st["v"][n] = v
        st["ver"][n] = st["ver"].get(n, 0) + 1

    def clamp(v, ty):
        r = ty_range(ty)
        if r is None:
            return V(v.lo, v.hi)
        if v.lo >= r[0] and v.hi <= r[1]:
            return V(v.lo, v.hi)
        return V(r[0], r[1])

    def arith(op, a, b):
        base = op.replace("WithOverflow", "").replace("Unchecked", "")
        if base == "Add":
            return a.lo + b.lo, a.hi + b.hi
        if base == "Sub":
            return a.lo - b.hi, a.hi - b.lo
        if base == "Mul":
            if INF in (abs(a.lo), abs(a.hi), abs(b.lo), abs(b.hi)):
                return -INF, INF
            c = [a.lo * b.lo, a.lo * b.hi, a.hi * b.lo, a.hi * b.hi]
            return min(c), max(c)
        if base in ("Div", "Rem"):
            if a.lo >= 0 and b.lo == b.hi and b.lo > 0 and a.hi != INF:
                if base == "Div":
                    return a.lo // b.lo, a.hi // b.lo
                return (0, min(a.hi, b.lo - 1))
            return -INF, INF
        return None

    def compare(op, a, b):
        """-> (lo, hi) of the boolean"""
        t = {"Lt": a.hi < b.lo, "Le": a.hi <= b.lo, "Gt": a.lo > b.hi, "Ge": a.lo >= b.hi, "Eq": a.lo == a.hi == b.lo == b.hi,
             "Ne": a.hi < b.lo or a.lo > b.hi}[op]
        f = {"Lt": a.lo >= b.hi, "Le": a.lo > b.hi, "Gt": a.hi <= b.lo, "Ge": a.hi < b.lo, "Eq": a.hi < b.lo or a.lo > b.hi,
             "Ne": a.lo == a.hi == b.lo == b.hi}[op]
        return (1, 1) if t else ((0, 0) if f else (0, 1))

    def side(v):
        if v.lo == v.hi and v.origin is None:
            return ("c", v.lo)
        if v.origin is not None:
            return ("l",) + v.origin
        return None

    def narrow(st, ref, lo=None, hi=None):
        """Narrow local ref = ('l', n, ver) if it still has that version."""
        if ref is None or ref[0] != "l":
            return True
        n, ver = ref[1], ref[2]
        if n in addr or st["ver"].get(n, 0) != ver:
            return True
        v = st["v"].get(n) or fresh(n)
        nlo = v.lo if lo is None else max(v.lo, lo)
        nhi = v.hi if hi is None else min(v.hi, hi)
        if nlo > nhi:
            return False
        st["v"][n] = V(nlo, nhi, v.origin, v.rel, v.pair)  # same version: a refinement, not a new value
        if v.origin is not None and v.origin[0] != n:
            return narrow(st, ("l",) + v.origin, lo, hi)
        return True

    def val_of(st, ref):
        if ref[0] == "c":
            return V(ref[1], ref[1])
        n, ver = ref[1], ref[2]
        if n in addr or st["ver"].get(n, 0) != ver:
            return TOP
        return st["v"].get(n) or fresh(n)

    def assume(st, v, truth):
        """Refine the state under `v == truth` for a boolean / flag value; False when that is impossible."""
        if v.lo == v.hi:
            return v.lo == (1 if truth else 0)
        if v.rel is None:
            return True
        op, a, b = v.rel
        if a is None or b is None:
            return True
        if not truth:
            op = {"Lt": "Ge", "Le": "Gt", "Gt": "Le", "Ge": "Lt", "Eq": "Ne", "Ne": "Eq"}[op]
        va, vb = val_of(st, a), val_of(st, b)
        if op == "Lt":
            return narrow(st, a, hi=vb.hi - 1) and narrow(st, b, lo=va.lo + 1)
        if op == "Le":
            return narrow(st, a, hi=vb.hi) and narrow(st, b, lo=va.lo)
        if op == "Gt":
            return narrow(st, a, lo=vb.lo + 1) and narrow(st, b, hi=va.hi - 1)
        if op == "Ge":
            return narrow(st, a, lo=vb.lo) and narrow(st, b, hi=va.hi)
        if op == "Eq":
            return narrow(st, a, lo=vb.lo, hi=vb.hi) and narrow(st, b, lo=va.lo, hi=va.hi)
        if op == "Ne":
            ok = True
            if vb.lo == vb.hi:
                if va.lo == vb.lo:
                    ok = ok and narrow(st, a, lo=va.lo + 1)
                elif va.hi == vb.lo:
                    ok = ok and narrow(st, a, hi=va.hi - 1)
            if va.lo == va.hi:
                if vb.lo == va.lo:
                    ok = ok and narrow(st, b, lo=vb.lo + 1)
                elif vb.hi == va.lo:
                    ok = ok and narrow(st, b, hi=vb.hi - 1)
            return ok
        return True

    def clone(st):
        return {"v": dict(st["v"]), "ver": dict(st["ver"])}

    def freeze(st):
        """The state up to the numbering of versions: a reference to another local counts only while it is still current
        (a stale one can never be used again), so two states with the same key behave the same from here on."""
        ver = st["ver"]

        def liveref(r):
            if r is None:
                return None
            if r[0] == "c":
                return r
            return ("l", r[1]) if ver.get(r[1], 0) == r[2] else None

        def vk(v):
            if v is None or not isinstance(v, V):
                return v
            org = v.origin[0] if v.origin is not None and ver.get(v.origin[0], 0) == v.origin[1] else None
            rel = None
            if v.rel is not None:
                a, b = liveref(v.rel[1]), liveref(v.rel[2])
                rel = (v.rel[0], a, b) if a is not None and b is not None else None
            return (v.lo, v.hi, org, rel, vk(v.pair) if isinstance(v.pair, V) else v.pair)
        return tuple(sorted((k, vk(v)) for k, v in st["v"].items()))

    import re as _re
    from . import flow as _flow
    defs = _flow.Defs(body)

    def array_len_of(t):
        """`<[T]>::len(&a as &[T])` for a local `a: [T; N]` is N."""
        nm = t["callee"].get("resolved") or t["callee"].get("path") or ""
        if not nm.endswith("<impl [T]>::len") or len(t["args"]) != 1 or t["args"][0]["k"] not in ("copy", "move"):
            return None
        n = t["args"][0]["place"]["local"]
        for _ in range(4):
            ds = defs.whole(n)
            if len(ds) != 1 or ds[0][0] != "assign":
                return None
            rv = ds[0][3]["rv"]
            if rv["k"] == "cast" and rv["op"]["k"] in ("copy", "move") and not rv["op"]["place"]["proj"]:
                n = rv["op"]["place"]["local"]
            elif rv["k"] == "use" and rv["op"]["k"] in ("copy", "move") and not rv["op"]["place"]["proj"]:
                n = rv["op"]["place"]["local"]
            elif rv["k"] == "ref" and not rv["place"]["proj"]:
                m = _re.match(r"^\[.*;\s*(\d+)(_usize)?\]$", lty(rv["place"]["local"]).strip())
                return int(m.group(1)) if m else None
            else:
                return None
        return None

    may_fail = set()
    steps = 0
    seen = set()
    work = [(0, {"v": {}, "ver": {}})]
    while work:
        bid, st = work.pop()
        steps += 1
        if steps > budget:
            return False, may_fail
        k = (bid, freeze(st))
        if k in seen:
            continue
        seen.add(k)
        b = body.blocks[bid]
        for s in b["stmts"]:
            if s["k"] != "assign":
                continue
            p = s["place"]
            if p["proj"]:
                if p["local"] not in addr:
                    write(st, p["local"], fresh(p["local"]) if not (st["v"].get(p["local"]) and st["v"][p["local"]].pair) else TOP)
                continue
            n = p["local"]
            rv = s["rv"]
            kk = rv["k"]
            if kk == "use":
                v = read(st, rv["op"])
                write(st, n, V(v.lo, v.hi, v.origin, v.rel, v.pair))
            elif kk == "binop":
                a, c = read(st, rv["a"]), read(st, rv["b"])
                op = rv["op"]
                if op in ("Lt", "Le", "Gt", "Ge", "Eq", "Ne"):
                    lo, hi = compare(op, a, c)
                    write(st, n, V(lo, hi, None, (op, side(a), side(c))))
                else:
                    r = arith(op, a, c)
                    if r is None:
                        write(st, n, fresh(n))
                    elif op.endswith("WithOverflow"):
                        ety = lty(n).strip("()").split(",")[0]
                        tr = ty_range(ety) or (-INF, INF)
                        never = r[0] >= tr[0] and r[1] <= tr[1]
                        lo, hi = max(r[0], tr[0]), min(r[1], tr[1])
                        if lo > hi:
                            lo, hi = tr
                        write(st, n, V(lo, hi, None, None, V(0, 0) if never else V(0, 1)))
                    else:
                        write(st, n, clamp(V(r[0], r[1]), lty(n)))
            elif kk == "cast":
                v = read(st, rv["op"])
                write(st, n, clamp(V(v.lo, v.hi), lty(n)) if rv.get("kind", "").startswith("IntToInt") else fresh(n))
            elif kk == "unop" and rv["op"] == "Not":
                v = read(st, rv["a"])
                if v.lo == v.hi and lty(n) == "bool":
                    write(st, n, V(1 - v.lo, 1 - v.lo))
                elif v.rel is not None:
                    op, a, c = v.rel
                    write(st, n, V(0, 1, None, ({"Lt": "Ge", "Le": "Gt", "Gt": "Le", "Ge": "Lt", "Eq": "Ne", "Ne": "Eq"}[op], a, c)))
                else:
                    write(st, n, fresh(n))
            elif kk == "aggregate" and rv["kind"].get("k") == "adt" and (rv["kind"].get("path") or "").startswith("std::ops::Range"):
                # a range value: its bounds are remembered for the array indexing below
                ops = [read(st, o) for o in rv["ops"]]
                rg = V(-INF, INF)
                rg.pair = ("range", rv["kind"]["path"].rsplit("::", 1)[-1], tuple((o.lo, o.hi) for o in ops))
                write(st, n, rg)
            else:
                write(st, n, fresh(n))
        t = b["term"]["t"]
        tk = t["k"]
        if tk in ("goto", "drop"):
            work.append((t["target"], st))
        elif tk == "call":
            nm_ = t["callee"].get("resolved") or t["callee"].get("path") or ""
            if nm_.endswith("for [T; N]>::index") or nm_.endswith("for [T; N]>::index_mut"):
                # a[range] on a fixed-size array: inside 0..=N (and start <= end) on this path, else it may panic
                m_ = _re.search(r";\s*(\d+)(_usize)?\]", t["callee"].get("generics", ""))
                okk_ = False
                if m_ and len(t["args"]) == 2 and t["args"][1]["k"] in ("copy", "move") and not t["args"][1]["place"]["proj"]:
                    rv_ = st["v"].get(t["args"][1]["place"]["local"])
                    if rv_ is not None and isinstance(rv_.pair, tuple) and rv_.pair[0] == "range":
                        n_ = int(m_.group(1))
                        kind_, bs_ = rv_.pair[1], rv_.pair[2]
                        if kind_ == "RangeFrom" and len(bs_) == 1:
                            okk_ = 0 <= bs_[0][0] and bs_[0][1] <= n_
                        elif kind_ == "RangeTo" and len(bs_) == 1:
                            okk_ = 0 <= bs_[0][0] and bs_[0][1] <= n_
                        elif kind_ == "Range" and len(bs_) == 2:
                            okk_ = 0 <= bs_[0][0] and bs_[0][1] <= bs_[1][0] and bs_[1][1] <= n_
                        elif kind_ == "RangeFull":
                            okk_ = True
                if not okk_:
                    may_fail.add(bid)
            d = t["dest"]
            if not d["proj"]:
                n_arr = array_len_of(t)
                write(st, d["local"], V(n_arr, n_arr) if n_arr is not None else fresh(d["local"]))
            if t["target"] >= 0:
                work.append((t["target"], st))
        elif tk == "assert":
            v = read(st, t["cond"])
            want = bool(t["expected"])
            if not (v.lo == v.hi and v.lo == (1 if want else 0)):
                may_fail.add(bid)
            st2 = clone(st)
            if assume(st2, v, want):
                work.append((t["target"], st2))
        elif tk == "switch":
            v = read(st, t["discr"])
            is_bool = t.get("discr_ty") == "bool"
            taken = []
            for val, tgt in t["targets"]:
                val = int(val)
                if val < v.lo or val > v.hi:
                    continue
                st2 = clone(st)
                good = assume(st2, v, bool(val)) if is_bool else (narrow(st2, side(v), lo=val, hi=val) if side(v) and side(v)[0] == "l" else True)
                if good:
                    work.append((tgt, st2))
                taken.append(val)
            # otherwise
            st2 = clone(st)
            good = True
            if is_bool:
                rest = [x for x in (0, 1) if x not in [int(a) for a, _ in t["targets"]]]
                if not rest or all(x < v.lo or x > v.hi for x in rest):
                    good = False
                elif len(rest) == 1:
                    good = assume(st2, v, bool(rest[0]))
            else:
                lo, hi = v.lo, v.hi
                vals = sorted(int(a) for a, _ in t["targets"])
                while lo in vals and lo <= hi:
                    lo += 1
                while hi in vals and hi >= lo:
                    hi -= 1
                if lo > hi:
                    good = False
                elif side(v) and side(v)[0] == "l":
                    good = narrow(st2, side(v), lo=lo if lo != -INF else None, hi=hi if hi != INF else None)
            if good:
                work.append((t["otherwise"], st2))
        elif tk in ("return", "unreachable", "resume"):
            pass
        else:
            return False, may_fail  # a terminator this exploration does not know
    return True, may_fail
