"""Static decoding of the shipped data files (db/*.bin.gz): gzip + CBOR, read as data, never through the crate."""
import glob
import gzip
import os
from fractions import Fraction

from . import cbor
from . import extract


def assets(repo=None):
    repo = repo or extract.repo_root()
    out = {}
    for f in sorted(glob.glob(os.path.join(repo, "db", "*"))):
        out[os.path.basename(f)] = f
    return out


def load(path):
    with gzip.open(path) as fh:
        return cbor.loads(fh.read())


def bigint(v):
    """num-bigint's serde form: (sign, [u32 digits little endian])."""
    if not (isinstance(v, list) and len(v) == 2 and isinstance(v[1], list)):
        raise ValueError("not a BigInt: %r" % (v,))
    sign, digits = v
    n = 0
    for i, d in enumerate(digits):
        if not (isinstance(d, int) and 0 <= d < 2 ** 32):
            raise ValueError("bad digit %r" % (d,))
        n |= d << (32 * i)
    if sign not in (-1, 0, 1):
        raise ValueError("bad sign %r" % (sign,))
    if (sign == 0) != (n == 0):
        raise ValueError("sign %r with magnitude %d" % (sign, n))
    return n * (sign if sign else 1)


def rational(v):
    if not (isinstance(v, list) and len(v) == 2):
        raise ValueError("not a ratio: %r" % (v,))
    n, d = bigint(v[0]), bigint(v[1])
    if d == 0:
        raise ValueError("zero denominator")
    return Fraction(n, d)


def decode_constant(c, unit_variants, derived_ids, source_ids):
    """Returns (problems, decoded) for one constant record."""
    problems = []
    keys = c.keys() if isinstance(c, cbor.Map) else []
    known = {"source", "tokens", "description", "value", "unit"}
    for k in keys:
        if k not in known:
            problems.append("unknown field %r" % (k,))
    for k in ("description", "value", "unit"):
        if k not in keys:
            problems.append("missing field %s" % k)
    out = {}
    toks = c.get("tokens")
    if not (isinstance(toks, list) and toks and all(isinstance(t, str) and t for t in toks)):
        problems.append("tokens missing or empty")
    out["tokens"] = toks or []
    if not isinstance(c.get("description"), str):
        problems.append("description is not a string")
    try:
        out["value"] = rational(c.get("value"))
    except (ValueError, TypeError) as e:
        problems.append("value does not decode: %s" % e)
    src = c.get("source")
    if src is not None and src not in source_ids:
        problems.append("source id %r is not a listed source" % (src,))
    unit = c.get("unit")
    names = unit.get("names") if isinstance(unit, cbor.Map) else None
    if not isinstance(names, cbor.Map):
        problems.append("unit.names is not a map")
        names = cbor.Map()
    units = []
    for k, st in names:
        if isinstance(k, str):
            if k not in unit_variants or k == "Derived":
                problems.append("unknown unit variant %r" % k)
            units.append(k)
        elif isinstance(k, cbor.Map) and k.keys() == ["Derived"]:
            did = k.get("Derived")
            if did not in derived_ids:
                problems.append("derived unit id %r (0x%x) is not a known derived unit" % (did, did))
            units.append(("Derived", did))
        else:
            problems.append("unit key %r has an unknown shape" % (k,))
        if not (isinstance(st, cbor.Map) and sorted(st.keys()) == ["power", "prefix"]
                and isinstance(st.get("power"), int) and isinstance(st.get("prefix"), int)):
            problems.append("state of %r is not {power, prefix}" % (k,))
        elif st.get("power") == 0:
            problems.append("unit %r stored with power 0" % (k,))
        elif not (-2 ** 31 <= st.get("power") < 2 ** 31 and -2 ** 31 <= st.get("prefix") < 2 ** 31):
            problems.append("state of %r out of i32 range" % (k,))
    out["units"] = units
    return problems, out
