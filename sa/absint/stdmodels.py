"""Models of the std iterator / collection / Option vocabulary, shared by every domain.

An ordinary maintenance change replaces an explicit loop by an adaptor chain (or back), `match` by a combinator,
`push` in a loop by `extend` / `collect`.  So that such changes do not disturb the rules, the interpreter gives these
calls their meaning instead of treating them as unknown callees:

  sequences     Seq(items)                  abstract contents of a Vec / VecDeque / slice / array (a tuple of values)
  iterators     Agg('it:<kind>', ...)       list, range, map, filter, enumerate, take, skip, zip, chain, rev, peekable,
                                            copied/cloned (transparent), by_ref (a Ref), and *sources* supplied by
                                            a domain (Domain.iter_source) or by a crate-local `Iterator::next` body
  consumers     all, any, count, collect, extend, for_each, try_for_each, fold, find, position, last, nth, sum (not modelled)

`step(it, v, store)` is the functional meaning of one `next()`: a list of (item | None, v', store').  Consumers drive
`step` until exhaustion on every path (bounded; exceeding the bound is *undecided*, never a pass).  A predicate closure
whose result is not a constant forks through Domain.fork_bool when the domain has it, otherwise both ways.
"""
from .core import Agg, Const, Ref, TOP, UNIT, NONE, some, ok, err, Undecided, FnV

MAX_DRIVE = 96


class Seq:
    __slots__ = ("items",)

    def __init__(self, items=()):
        self.items = tuple(items)

    def __eq__(self, o):
        return isinstance(o, Seq) and o.items == self.items

    def __hash__(self):
        return hash(("Seq", self.items))

    def __repr__(self):
        return "seq%r" % (list(self.items),)


def it_list(items, pos=0):
    return Agg("it:list", None, pos, None, tuple(items))


def it_adapt(kind, *fields):
    return Agg("it:" + kind, None, None, None, fields)


def is_iter(v):
    return (isinstance(v, Agg) and isinstance(v.kind, str) and v.kind.startswith("it:")) or type(v).__name__ == "IterV"


def _norm_iter(v):
    """The older list-iterator value of the term domain is the same thing as it:list."""
    if type(v).__name__ == "IterV":
        return it_list(v.items, v.pos)
    return v


def is_opt(v):
    return isinstance(v, Agg) and v.path == "std::option::Option"


def is_res(v):
    return isinstance(v, Agg) and v.path == "std::result::Result"


_DEPTH = []


def _depth(it):
    """Inlining depth of the call that entered the std model (nested applications must not inherit the depth their
    predecessors left behind)."""
    return _DEPTH[-1] if _DEPTH else getattr(it, "_cur_depth", 0)


def _bools(it, v, st):
    """Outcomes of testing a boolean value: [(bool, store)]."""
    if isinstance(v, Const) and isinstance(v.v, (bool, int)):
        return [(bool(v.v), st)]
    f = getattr(it.dom, "fork", None)
    if f is not None and v is not TOP:
        return [(bool(b.v), s) for b, s in f(st, v)]
    return [(True, st), (False, st)]


def _apply(it, clos, args, st):
    it._cur_depth = _depth(it)
    r = it.apply_closure(clos, args, st, _depth(it))
    if r is None:
        # an fn item of the crate or an unknown callable
        if isinstance(clos, FnV):
            r = it.call_named(clos.path, list(args), st, _depth(it))
        if r is None:
            raise Undecided("a callable without a body is applied by an iterator adaptor (%r)" % (clos,))
    return r


# ---- one step of an iterator ------------------------------------------------------------------------------------------------
def step(it, v, st):
    """-> [(item or None, v', store')]; raises Undecided for values that are not iterators."""
    if isinstance(v, Ref):
        inner = it.read_ref(st, v)
        seen = {v}
        while isinstance(inner, Ref):
            if inner in seen:
                raise Undecided("an iterator reference that refers to itself")
            seen.add(inner)
            v = inner
            inner = it.read_ref(st, v)
        outs = []
        for item, inner2, st2 in step(it, inner, st):
            outs.append((item, v, it.write_ref(st2, v, inner2)))
        return outs
    v = _norm_iter(v)
    if not isinstance(v, Agg):
        raise Undecided("next() on %r" % (v,))
    k = v.kind
    if k == "it:list":
        pos = v.vi
        if pos < len(v.fields):
            return [(v.fields[pos], Agg(k, None, pos + 1, None, v.fields), st)]
        return [(None, v, st)]
    if k == "it:range":
        lo, hi = v.fields
        if isinstance(lo, Const) and isinstance(hi, Const):
            if lo.v < hi.v:
                return [(lo, it_adapt("range", Const(lo.v + 1), hi), st)]
            return [(None, v, st)]
        outs = []
        cmpv = it.dom.binop("Lt", lo, hi) if hasattr(it.dom, "binop") else None
        if cmpv is None:
            raise Undecided("a range with unknown bounds is iterated")
        for b, s2 in _bools(it, cmpv, st):
            if b:
                nxt = it.dom.binop("Add", lo, Const(1))
                outs.append((lo, it_adapt("range", nxt if nxt is not None else TOP, hi), s2))
            else:
                outs.append((None, v, s2))
        return outs
    if k == "it:map":
        inner, f = v.fields
        outs = []
        for item, inner2, st2 in step(it, inner, st):
            v2 = it_adapt("map", inner2, f)
            if item is None:
                outs.append((None, v2, st2))
                continue
            for kind_, val, st3 in _apply(it, f, [item], st2):
                if kind_ != "ret":
                    raise Undecided("a map closure can panic: %s" % (val,))
                outs.append((val, v2, st3))
        return outs
    if k == "it:successors":
        # successors(first, f): yields `first`, then f(&previous) ... until a None
        cur, f = v.fields
        if not is_opt(cur):
            raise Undecided("successors over an unknown first element")
        if cur.vi == 0:
            return [(None, v, st)]
        item = cur.field(0)
        tmp = it.fresh_slot(st, item)
        outs = []
        for kind_, val, st3 in _apply(it, f, [tmp[1]], tmp[0]):
            if kind_ != "ret":
                raise Undecided("a successors closure can panic")
            outs.append((item, it_adapt("successors", val, f), st3))
        return outs
    if k in ("it:filter", "it:take_while", "it:skip_while"):
        inner, f = v.fields
        outs = []
        work = [(inner, st, 0)]
        while work:
            cur, s0, n = work.pop()
            if n > MAX_DRIVE:
                raise Undecided("a filter does not terminate within the bound")
            for item, inner2, st2 in step(it, cur, s0):
                if item is None:
                    outs.append((None, it_adapt(k[3:], inner2, f), st2))
                    continue
                tmp = it.fresh_slot(st2, item)
                for kind_, val, st3 in _apply(it, f, [tmp[1]], tmp[0]):
                    if kind_ != "ret":
                        raise Undecided("a filter closure can panic")
                    for b, st4 in _bools(it, val, st3):
                        if k == "it:filter":
                            if b:
                                outs.append((item, it_adapt("filter", inner2, f), st4))
                            else:
                                work.append((inner2, st4, n + 1))
                        elif k == "it:take_while":
                            if b:
                                outs.append((item, it_adapt("take_while", inner2, f), st4))
                            else:
                                outs.append((None, it_list(()), st4))
                        else:
                            if b:
                                work.append((inner2, st4, n + 1))
                            else:
                                outs.append((item, inner2, st4))
        return outs
    if k == "it:filter_map":
        inner, f = v.fields
        outs = []
        work = [(inner, st, 0)]
        while work:
            cur, s0, n = work.pop()
            if n > MAX_DRIVE:
                raise Undecided("a filter_map does not terminate within the bound")
            for item, inner2, st2 in step(it, cur, s0):
                if item is None:
                    outs.append((None, it_adapt("filter_map", inner2, f), st2))
                    continue
                for kind_, val, st3 in _apply(it, f, [item], st2):
                    if kind_ != "ret":
                        raise Undecided("a filter_map closure can panic")
                    if is_opt(val) and val.vi == 1:
                        outs.append((val.field(0), it_adapt("filter_map", inner2, f), st3))
                    elif is_opt(val):
                        work.append((inner2, st3, n + 1))
                    else:
                        raise Undecided("a filter_map closure returns %r" % (val,))
        return outs
    if k == "it:enumerate":
        inner, i = v.fields
        outs = []
        for item, inner2, st2 in step(it, inner, st):
            if item is None:
                outs.append((None, it_adapt("enumerate", inner2, i), st2))
            else:
                outs.append((Agg("tuple", None, None, None, (i, item)), it_adapt("enumerate", inner2, Const(i.v + 1)), st2))
        return outs
    if k == "it:take":
        inner, n = v.fields
        if isinstance(n, Const):
            branches = [(n.v == 0, st)]
        else:
            eq = it.dom.binop("Eq", n, Const(0))
            if eq is None:
                raise Undecided("take() with an unknown budget")
            branches = _bools(it, eq, st)
        outs = []
        for zero, s0 in branches:
            if zero:
                outs.append((None, v, s0))
                continue
            n2 = Const(n.v - 1) if isinstance(n, Const) else it.dom.binop("Sub", n, Const(1))
            for item, inner2, st2 in step(it, inner, s0):
                outs.append((item, it_adapt("take", inner2, n2), st2))
        return outs
    if k == "it:skip":
        inner, n = v.fields
        if not isinstance(n, Const):
            raise Undecided("skip() with an unknown count")
        cur = [(inner, st)]
        for _ in range(n.v):
            nxt = []
            for c, s0 in cur:
                for item, inner2, st2 in step(it, c, s0):
                    nxt.append((inner2, st2))
            cur = nxt
        outs = []
        for c, s0 in cur:
            for item, inner2, st2 in step(it, c, s0):
                outs.append((item, inner2 if item is not None else it_adapt("skip", inner2, Const(0)), st2))
        return outs
    if k == "it:zip":
        a, b = v.fields
        outs = []
        for x, a2, st2 in step(it, a, st):
            if x is None:
                outs.append((None, it_adapt("zip", a2, b), st2))
                continue
            for y, b2, st3 in step(it, b, st2):
                if y is None:
                    outs.append((None, it_adapt("zip", a2, b2), st3))
                else:
                    outs.append((Agg("tuple", None, None, None, (x, y)), it_adapt("zip", a2, b2), st3))
        return outs
    if k == "it:chain":
        a, b = v.fields
        outs = []
        if a is not None and a != NONE:
            for x, a2, st2 in step(it, a, st):
                if x is None:
                    for y, b2, st3 in step(it, b, st2):
                        outs.append((y, it_adapt("chain", NONE, b2), st3))
                else:
                    outs.append((x, it_adapt("chain", a2, b), st2))
            return outs
        for y, b2, st3 in step(it, b, st):
            outs.append((y, it_adapt("chain", NONE, b2), st3))
        return outs
    if k == "it:peekable":
        inner, peeked = v.fields
        if is_opt(peeked) and peeked.vi == 1:
            slot = peeked.field(0)  # Option<Item>: the remembered result of the look-ahead
            if is_opt(slot) and slot.vi == 0:
                return [(None, it_adapt("peekable", inner, NONE), st)]
            return [(slot.field(0) if is_opt(slot) else slot, it_adapt("peekable", inner, NONE), st)]
        outs = []
        for item, inner2, st2 in step(it, inner, st):
            outs.append((item, it_adapt("peekable", inner2, NONE), st2))
        return outs
    if k == "it:once":
        x = v.fields[0]
        if x is None or x == NONE:
            return [(None, v, st)]
        return [(x, it_adapt("once", NONE), st)]
    src = getattr(it.dom, "iter_source", None)
    if src is not None:
        r = src(it, v, st)
        if r is not None:
            return r
    # a crate-local iterator type: run its own `next`
    if v.kind == "adt" and v.path:
        nm = it.facts.iterator_impl(v.path) if hasattr(it.facts, "iterator_impl") else None
        if nm:
            st1, ref = it.fresh_slot(st, v)
            outs = []
            for kind_, val, st2 in it.call_named(nm, [ref], st1, _depth(it), skip_std=True):
                if kind_ != "ret":
                    raise Undecided("next() of %s can panic: %s" % (v.path, val))
                v2 = it.read_ref(st2, ref)
                if is_opt(val):
                    outs.append((val.field(0) if val.vi == 1 else None, v2, st2))
                else:
                    raise Undecided("next() of %s returns %r" % (v.path, val))
            return outs
    raise Undecided("next() on a value that is not a modelled iterator: %r" % (v,))


def drive(it, v, st, limit=MAX_DRIVE):
    """Exhaust an iterator on every path: yields (items tuple, v_final, store)."""
    work = [((), v, st)]
    out = []
    while work:
        items, cur, s0 = work.pop()
        if len(items) > limit:
            raise Undecided("an iterator is not exhausted within %d steps" % limit)
        for item, v2, st2 in step(it, cur, s0):
            if item is None:
                out.append((items, v2, st2))
            else:
                work.append((items + (item,), v2, st2))
    return out


def to_iter(it, v, st):
    """IntoIterator: a sequence / array / range / option becomes an iterator value; iterators stay."""
    if isinstance(v, Ref):
        t = it.read_ref(st, v)
        if is_iter(t) or (isinstance(t, Agg) and t.kind == "adt" and not is_opt(t) and t.path not in ("std::ops::Range", "std::ops::RangeFrom")):
            return v  # iterate through the borrow
        v = t
    if is_iter(v):
        return v
    if type(v).__name__ == "VecV":
        return it_list(v.items)
    if isinstance(v, Seq):
        return it_list(v.items)
    if isinstance(v, Agg) and v.kind in ("array", "tuple") and v.path is None:
        return it_list(v.fields)
    if isinstance(v, Agg) and v.path in ("std::ops::Range",):
        return it_adapt("range", v.field(0), v.field(1))
    if isinstance(v, Agg) and v.path == "std::ops::RangeFrom":
        # `lo..`: counts upwards for ever (an adaptor such as take_while ends it)
        return it_adapt("range", v.field(0), Const(2 ** 64))
    if is_opt(v):
        return it_adapt("once", v.field(0) if v.vi == 1 else NONE)
    return None


# ---- the call table -----------------------------------------------------------------------------------------------------------
ADAPTORS = {"map": 2, "filter": 2, "filter_map": 2, "take_while": 2, "skip_while": 2, "take": 2, "skip": 2, "zip": 2, "chain": 2}
TRANSPARENT = {"copied", "cloned", "fuse", "into_iter", "iter", "iter_mut", "by_ref"}


def _method(name):
    return name.rsplit("::", 1)[-1]


def _is_iter_trait(name):
    return name.startswith("std::iter::Iterator::") or " as std::iter::Iterator>::" in name \
        or name.startswith("std::iter::DoubleEndedIterator::") or " as std::iter::DoubleEndedIterator>::" in name


def _seq_family(name):
    return (name.startswith("std::vec::Vec::<") or name.startswith("std::collections::VecDeque::<")
            or name.startswith("core::slice::<impl [T]>::") or name.startswith("std::slice::<impl [T]>::")
            or name.startswith("std::collections::vec_deque::VecDeque::<"))


def call(it, name, args, st):
    """Returns None (not modelled here) or a list of ('ret'|'panic', value, store)."""
    _DEPTH.append(getattr(it, "_cur_depth", 0))
    try:
        return _call(it, name, args, st)
    finally:
        _DEPTH.pop()


def _call(it, name, args, st):
    m = _method(name)
    vals = [it.read_ref(st, a) for a in args]
    # the term domain's older vector value is the same thing as a sequence
    vals = [Seq(v.items) if type(v).__name__ == "VecV" else v for v in vals]
    # a fixed-size array read through a slice method is the sequence of its elements
    vals = [Seq(v.fields) if isinstance(v, Agg) and v.kind == "array" and v.path is None else v for v in vals]
    a0 = vals[0] if vals else None
    if name == "std::iter::successors" and len(vals) == 2 and is_opt(vals[0]):
        return [("ret", it_adapt("successors", vals[0], vals[1]), st)]
    # ---- IntoIterator -----------------------------------------------------------------------------------------------------
    if name.endswith("IntoIterator>::into_iter") or name == "std::iter::IntoIterator::into_iter" or \
            ("IntoIterator for " in name and name.endswith("::into_iter")):
        v = to_iter(it, args[0], st)
        if v is not None:
            return [("ret", v, st)]
        return None
    # ---- sequences ----------------------------------------------------------------------------------------------------------
    if _seq_family(name) or (isinstance(a0, Seq) and ("std::ops::Index" in name or name.endswith("::deref") or name.endswith("::as_slice"))):
        if m in ("new", "with_capacity") and not any(isinstance(v, Seq) for v in vals):
            return [("ret", Seq(()), st)]
        if not isinstance(a0, Seq):
            return None
        if m == "len":
            return [("ret", Const(len(a0.items)), st)]
        if m == "is_empty":
            return [("ret", Const(len(a0.items) == 0), st)]
        if m in ("push", "push_back") and len(args) == 2:
            return [("ret", UNIT, it.write_ref(st, args[0], Seq(a0.items + (vals[1],))))]
        if m == "push_front" and len(args) == 2:
            return [("ret", UNIT, it.write_ref(st, args[0], Seq((vals[1],) + a0.items)))]
        if m == "pop_front":
            if not a0.items:
                return [("ret", NONE, st)]
            return [("ret", some(a0.items[0]), it.write_ref(st, args[0], Seq(a0.items[1:])))]
        if m in ("pop", "pop_back"):
            if not a0.items:
                return [("ret", NONE, st)]
            return [("ret", some(a0.items[-1]), it.write_ref(st, args[0], Seq(a0.items[:-1])))]
        if m in ("front", "first"):
            return [("ret", some(a0.items[0]) if a0.items else NONE, st)]
        if m in ("back", "last"):
            return [("ret", some(a0.items[-1]) if a0.items else NONE, st)]
        if m == "get" and len(vals) == 2 and isinstance(vals[1], Const) and isinstance(vals[1].v, int):
            i = vals[1].v
            return [("ret", some(a0.items[i]) if 0 <= i < len(a0.items) else NONE, st)]
        if m == "index" and len(vals) == 2 and isinstance(vals[1], Agg) and (vals[1].path or "").startswith("std::ops::Range"):
            # a[i..], a[..j], a[i..j], a[..]: constant bounds only
            r_ = vals[1]
            kind_ = r_.path.rsplit("::", 1)[-1]
            fs_ = [f.v if isinstance(f, Const) and isinstance(f.v, int) else None for f in r_.fields]
            n_ = len(a0.items)
            lo, hi = {"RangeFrom": (fs_[0] if fs_ else None, n_), "RangeTo": (0, fs_[0] if fs_ else None),
                      "Range": (fs_[0] if len(fs_) > 1 else None, fs_[1] if len(fs_) > 1 else None),
                      "RangeFull": (0, n_)}.get(kind_, (None, None))
            if lo is None or hi is None:
                return None
            if not (0 <= lo <= hi <= n_):
                return [("panic", "slice index out of range", st)]
            return [("ret", Seq(a0.items[lo:hi]), st)]
        if m == "index" and len(vals) == 2 and isinstance(vals[1], Const) and isinstance(vals[1].v, int):
            i = vals[1].v
            if 0 <= i < len(a0.items):
                return [("ret", a0.items[i], st)]
            return [("panic", "index out of bounds", st)]
        if m in ("iter", "iter_mut", "into_iter", "drain_all"):
            return [("ret", it_list(a0.items), st)]
        if m == "clear":
            return [("ret", UNIT, it.write_ref(st, args[0], Seq(())))]
        if m in ("deref", "as_slice", "as_ref", "make_contiguous"):
            return [("ret", a0, st)]
        if m == "extend" and len(args) == 2:
            src = to_iter(it, args[1], st)
            if src is None:
                return None
            outs = []
            for items, _, st2 in drive(it, src, st):
                cur = it.read_ref(st2, args[0])
                outs.append(("ret", UNIT, it.write_ref(st2, args[0], Seq(cur.items + items))))
            return outs
        if m == "contains":
            return None
        return None
    if m == "extend" and len(args) == 2 and isinstance(a0, Seq):
        src = to_iter(it, args[1], st)
        if src is not None:
            outs = []
            for items, _, st2 in drive(it, src, st):
                cur = it.read_ref(st2, args[0])
                outs.append(("ret", UNIT, it.write_ref(st2, args[0], Seq(cur.items + items))))
            return outs
    # ---- iterator trait ---------------------------------------------------------------------------------------------------
    if _is_iter_trait(name) or (name.startswith("std::iter::range::<impl std::iter::Iterator for") and m == "next"):
        recv = args[0] if args else None
        # receiver passed by value (adaptors) or by &mut (next / consumers)
        target = recv if isinstance(recv, Ref) else a0
        tv = _norm_iter(a0)
        if isinstance(tv, Agg) and tv.path in ("std::ops::Range", "std::ops::RangeFrom"):
            tv = it_adapt("range", tv.field(0), tv.field(1) if tv.path == "std::ops::Range" else Const(2 ** 64))
            if isinstance(recv, Ref):
                st = it.write_ref(st, recv, tv)
        known = is_iter(tv) or isinstance(tv, Ref) or (isinstance(tv, Agg) and tv.kind == "adt" and (
            getattr(it.dom, "iter_source", None) is not None or (hasattr(it.facts, "iterator_impl") and it.facts.iterator_impl(tv.path))))
        if not known:
            return None
        if m == "next":
            outs = []
            for item, v2, st2 in step(it, target if isinstance(target, Ref) else tv, st):
                if isinstance(target, Ref) and not isinstance(v2, Ref):
                    st2 = it.write_ref(st2, target, v2)
                outs.append(("ret", NONE if item is None else some(item), st2))
            return outs
        if m in ADAPTORS and len(vals) == 2:
            # an adaptor built on a `&mut I` keeps driving that iterator (`(&mut it).take(n)`): hold the reference
            inner = recv if isinstance(recv, Ref) else tv
            second = vals[1]
            if m in ("zip", "chain"):
                second = to_iter(it, args[1], st)
                if second is None:
                    return None
            return [("ret", it_adapt(m, inner, second), st)]
        if m == "enumerate":
            return [("ret", it_adapt("enumerate", tv, Const(0)), st)]
        if m == "peekable":
            return [("ret", it_adapt("peekable", tv, NONE), st)]
        if m == "by_ref":
            return [("ret", recv, st)]
        if m in ("copied", "cloned", "fuse"):
            return [("ret", tv, st)]
        if m == "rev":
            if isinstance(tv, Agg) and tv.kind == "it:list":
                return [("ret", it_list(tuple(reversed(tv.fields[tv.vi:]))), st)]
            if isinstance(tv, Agg) and tv.kind == "it:range" and all(isinstance(x, Const) for x in tv.fields):
                return [("ret", it_list(tuple(Const(i) for i in reversed(range(tv.fields[0].v, tv.fields[1].v)))), st)]
            return None
        src = target if isinstance(target, Ref) else tv
        if m == "count":
            return [("ret", Const(len(items)), _wb(it, st2, target, v2)) for items, v2, st2 in drive(it, src, st)]
        if m == "last":
            return [("ret", some(items[-1]) if items else NONE, _wb(it, st2, target, v2)) for items, v2, st2 in drive(it, src, st)]
        if m == "collect":
            return [("ret", Seq(items), st2) for items, v2, st2 in drive(it, src, st)]
        if m in ("all", "any", "find", "position", "for_each", "try_for_each", "find_map") and len(vals) == 2:
            return _consume(it, m, src, target, vals[1], st)
        if m == "fold" and len(vals) == 3:
            outs = []
            for items, v2, st2 in drive(it, src, st):
                accs = [(vals[1], st2)]
                for x in items:
                    nxt = []
                    for acc, s0 in accs:
                        for kind_, val, s1 in _apply(it, vals[2], [acc, x], s0):
                            if kind_ != "ret":
                                raise Undecided("a fold closure can panic")
                            nxt.append((val, s1))
                    accs = nxt
                for acc, s0 in accs:
                    outs.append(("ret", acc, s0))
            return outs
        if m == "nth" and len(vals) == 2 and isinstance(vals[1], Const):
            cur = [(src, st)]
            for _ in range(vals[1].v):
                cur = [(v2 if not isinstance(src, Ref) else src, st2) for c, s0 in cur for item, v2, st2 in step(it, c, s0)]
            outs = []
            for c, s0 in cur:
                for item, v2, st2 in step(it, c, s0):
                    outs.append(("ret", NONE if item is None else some(item), _wb(it, st2, target, v2)))
            return outs
        return None
    if name == "std::iter::Peekable::<I>::peek" and isinstance(a0, Agg) and a0.kind == "it:peekable":
        inner, peeked = a0.fields
        if is_opt(peeked) and peeked.vi == 1:
            return [("ret", peeked.field(0), st)]
        outs = []
        for item, inner2, st2 in step(it, inner, st):
            slot = NONE if item is None else some(item)
            outs.append(("ret", slot, it.write_ref(st2, args[0], it_adapt("peekable", inner2, some(slot)))))
        return outs
    if name == "std::iter::once" and len(vals) == 1:
        return [("ret", it_adapt("once", vals[0]), st)]
    if name == "std::iter::empty":
        return [("ret", it_list(()), st)]
    # ---- equality of Options / tuples of known shape: decided structurally, payloads compared by the domain ------------
    if (name.endswith(" as std::cmp::PartialEq>::eq") or name.endswith(" as std::cmp::PartialEq>::ne")
            or name.endswith("PartialEq<&B> for &A>::eq") or name.endswith("PartialEq<&B> for &A>::ne")
            or name in ("std::cmp::PartialEq::eq", "std::cmp::PartialEq::ne")) and len(vals) == 2:
        x, y = vals
        for _ in range(3):
            x = it.read_ref(st, x) if isinstance(x, Ref) else x
            y = it.read_ref(st, y) if isinstance(y, Ref) else y
        if is_opt(x) and is_opt(y):
            neg = name.endswith("::ne")
            if x.vi != y.vi:
                return [("ret", Const(neg), st)]
            if x.vi == 0:
                return [("ret", Const(not neg), st)]
            a, b = x.field(0), y.field(0)
            for _ in range(3):
                a = it.read_ref(st, a) if isinstance(a, Ref) else a
                b = it.read_ref(st, b) if isinstance(b, Ref) else b
            if a == b and a is not TOP:
                return [("ret", Const(not neg), st)]
            r = it.dom.binop("Ne" if neg else "Eq", a, b) if hasattr(it.dom, "binop") else None
            if r is not None:
                return [("ret", r, st)]
    # ---- Option / bool helpers not in core.std_call -----------------------------------------------------------------------
    if name.startswith("std::option::Option::<") and is_opt(a0):
        if m == "is_some":
            return [("ret", Const(a0.vi == 1), st)]
        if m == "is_none":
            return [("ret", Const(a0.vi == 0), st)]
        if m in ("copied", "cloned", "as_ref", "as_mut", "as_deref"):
            return [("ret", a0, st)]
        if m == "unwrap_or_default" and a0.vi == 1:
            return [("ret", a0.field(0), st)]
        if m in ("filter",) and len(vals) == 2:
            if a0.vi == 0:
                return [("ret", NONE, st)]
            st1, ref = it.fresh_slot(st, a0.field(0))
            outs = []
            for kind_, val, st2 in _apply(it, vals[1], [ref], st1):
                for b, st3 in _bools(it, val, st2):
                    outs.append(("ret", a0 if b else NONE, st3))
            return outs
        if m in ("is_some_and", "is_none_or") and len(vals) == 2:
            if a0.vi == 0:
                return [("ret", Const(m == "is_none_or"), st)]
            return [(k_, v_, s_) for k_, v_, s_ in _apply(it, vals[1], [a0.field(0)], st)]
    return None


def _wb(it, st, target, v2):
    if isinstance(target, Ref) and not isinstance(v2, Ref):
        return it.write_ref(st, target, v2)
    return st


def _consume(it, m, src, target, f, st):
    """Short-circuiting consumers."""
    outs = []
    work = [(src, st, 0)]
    while work:
        cur, s0, n = work.pop()
        if n > MAX_DRIVE:
            raise Undecided("%s() does not finish within the bound" % m)
        for item, v2, st2 in step(it, cur, s0):
            nxt = v2 if not isinstance(src, Ref) else src
            st2 = _wb(it, st2, target, v2)
            if item is None:
                end = {"all": Const(True), "any": Const(False), "find": NONE, "find_map": NONE, "position": NONE,
                       "for_each": UNIT, "try_for_each": ok(UNIT)}[m]
                outs.append(("ret", end, st2))
                continue
            if m == "find":
                st3, ref = it.fresh_slot(st2, item)
                arg = [ref]
            else:
                st3, arg = st2, [item]
            for kind_, val, st4 in _apply(it, f, arg, st3):
                if kind_ != "ret":
                    outs.append((kind_, val, st4))
                    continue
                if m == "for_each":
                    work.append((nxt, st4, n + 1))
                elif m == "try_for_each":
                    if is_res(val):
                        if val.vi == 0:
                            work.append((nxt, st4, n + 1))
                        else:
                            outs.append(("ret", val, st4))
                    elif is_opt(val):
                        if val.vi == 1:
                            work.append((nxt, st4, n + 1))
                        else:
                            outs.append(("ret", val, st4))
                    else:
                        raise Undecided("try_for_each with a closure returning %r" % (val,))
                elif m == "find_map":
                    if is_opt(val) and val.vi == 1:
                        outs.append(("ret", val, st4))
                    elif is_opt(val):
                        work.append((nxt, st4, n + 1))
                    else:
                        raise Undecided("find_map with a closure returning %r" % (val,))
                else:
                    for b, st5 in _bools(it, val, st4):
                        if m == "all":
                            if b:
                                work.append((nxt, st5, n + 1))
                            else:
                                outs.append(("ret", Const(False), st5))
                        elif m == "any":
                            if b:
                                outs.append(("ret", Const(True), st5))
                            else:
                                work.append((nxt, st5, n + 1))
                        elif m == "find":
                            if b:
                                outs.append(("ret", some(item), st5))
                            else:
                                work.append((nxt, st5, n + 1))
                        elif m == "position":
                            if b:
                                outs.append(("ret", some(Const(n)), st5))
                            else:
                                work.append((nxt, st5, n + 1))
    return outs
