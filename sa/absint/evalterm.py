"""Evaluation of summary terms under an assignment of their symbols, and semantic comparison on a grid.

A path summary is a term over symbols.  Two terms denote the same function when they agree on every assignment; the
rules compare a computed term with the specified one *semantically*: first structurally (fast path), otherwise on a
finite grid of assignments that satisfy the path condition.  The grid comparison tolerates any algebraically
equivalent rewriting of the code (operand order of commutative operators, `%` instead of `x - d*(x/d)`, a
re-associated sum) and separates every pair of distinct low-degree terms the rules meet; a term containing an operator
this evaluator does not know is *unrecognised* (the obligation fails closed), never equal.
"""
from fractions import Fraction

from .core import Const, Agg
from .term import Sym, K, T


class Unrecognised(Exception):
    pass


def _floor_div(a, b):
    if b == 0:
        raise ZeroDivisionError
    a, b = Fraction(a), Fraction(b)
    if a.denominator != 1 or b.denominator != 1:
        raise Unrecognised("integer division of non-integers")
    q = abs(a.numerator) // abs(b.numerator)  # BigInt division truncates toward zero
    return Fraction(q if (a >= 0) == (b >= 0) else -q)


def ev(t, env):
    """Value of term t (Fraction, bool, int or str) under env: {symbol name: value}."""
    if isinstance(t, bool):
        return t
    if isinstance(t, (int, Fraction)):
        return Fraction(t)
    if isinstance(t, Sym):
        if t.name not in env:
            raise Unrecognised("free symbol %s" % t.name)
        return env[t.name]
    if isinstance(t, K):
        return t.v
    if isinstance(t, Const):
        if isinstance(t.v, bool):
            return t.v
        if isinstance(t.v, int):
            return Fraction(t.v)
        return t.v
    if not isinstance(t, T):
        raise Unrecognised("not a term: %r" % (t,))
    op = t.op
    if op in env and callable(env[op]):
        return env[op](*[ev(a, env) for a in t.args])
    a = [ev(x, env) for x in t.args]
    if op in ("+", "i+"):
        return a[0] + a[1]
    if op in ("-", "i-"):
        return a[0] - a[1]
    if op in ("*", "i*"):
        return a[0] * a[1]
    if op in ("/", "new"):
        return Fraction(a[0]) / Fraction(a[1])
    if op == "recip":
        return 1 / Fraction(a[0])
    if op == "idiv":
        return _floor_div(a[0], a[1])
    if op in ("%", "irem"):
        return a[0] - a[1] * _floor_div(a[0], a[1])
    if op == "neg" or op == "Neg":
        return -a[0]
    if op == "abs" or op.endswith("::unsigned_abs") or op.endswith("::abs"):
        return abs(a[0])
    if op == "numer":
        return Fraction(Fraction(a[0]).numerator)
    if op == "denom":
        return Fraction(Fraction(a[0]).denominator)
    if op == "pow":
        return Fraction(a[0]) ** int(a[1])
    if op.startswith("cast:") or op.startswith("to_") or op in ("display", "clone"):
        return a[0]
    if op == "Eq" or op == "==":
        return a[0] == a[1]
    if op == "Ne":
        return a[0] != a[1]
    if op == "Lt":
        return a[0] < a[1]
    if op == "Le":
        return a[0] <= a[1]
    if op == "Gt":
        return a[0] > a[1]
    if op == "Ge":
        return a[0] >= a[1]
    if op == "Not":
        return not a[0]
    if op == "signum":
        return Fraction((a[0] > 0) - (a[0] < 0))
    if op == "sign":
        return "Minus" if a[0] < 0 else ("Plus" if a[0] > 0 else "NoSign")
    if op == "sign_is":
        s_ = "Minus" if a[0] < 0 else ("Plus" if a[0] > 0 else "NoSign")
        return s_ == a[1]
    if op == "discr":
        if isinstance(a[0], str) and a[0] in ("Minus", "NoSign", "Plus"):
            return Fraction(("Minus", "NoSign", "Plus").index(a[0]))
        if isinstance(a[0], bool):
            return Fraction(int(a[0]))
        raise Unrecognised("discriminant of %r" % (a[0],))
    if op in ("BitAnd", "BitOr") and all(isinstance(x, bool) for x in a):
        return (a[0] and a[1]) if op == "BitAnd" else (a[0] or a[1])
    if op == "is_zero":
        return a[0] == 0
    if op == "is_one":
        return a[0] == 1
    if op == "is_negative":
        return a[0] < 0
    if op == "is_positive":
        return a[0] > 0
    if op == "is_integer":
        return Fraction(a[0]).denominator == 1
    if op.startswith("fits_"):
        w = op[5:]
        bits = {"u8": (0, 255), "i8": (-128, 127), "u16": (0, 65535), "u32": (0, 2 ** 32 - 1), "i32": (-2 ** 31, 2 ** 31 - 1),
                "usize": (0, 2 ** 64 - 1), "u64": (0, 2 ** 64 - 1), "i64": (-2 ** 63, 2 ** 63 - 1)}.get(w)
        if bits is None:
            raise Unrecognised(op)
        return Fraction(a[0]).denominator == 1 and bits[0] <= a[0] <= bits[1]
    raise Unrecognised("operator %s" % op)


def sign_contradiction(pc):
    """Is the path condition unsatisfiable by the trichotomy of signs alone?  Collects, per term x, the predicates that
    only speak about the sign of x (is_zero, is_negative, is_positive, sign_is, a comparison of discr(sign(x)) with a
    constant) and tries x < 0, x = 0, x > 0."""
    groups = {}

    def atom(p):
        if not isinstance(p, T):
            return None
        if p.op in ("is_zero", "is_negative", "is_positive") and len(p.args) == 1:
            return p.args[0], (lambda s, op=p.op: {"is_zero": s == 0, "is_negative": s < 0, "is_positive": s > 0}[op])
        if p.op == "sign_is" and len(p.args) == 2 and isinstance(p.args[1], Const):
            return p.args[0], (lambda s, n=p.args[1].v: {-1: "Minus", 0: "NoSign", 1: "Plus"}[s] == n)
        if p.op in ("==", "Eq", "Ne") and len(p.args) == 2:
            for x, y in ((p.args[0], p.args[1]), (p.args[1], p.args[0])):
                if isinstance(x, T) and x.op == "discr" and isinstance(x.args[0], T) and x.args[0].op == "sign" and isinstance(y, Const):
                    f = (lambda s, k=int(y.v): (s + 1) == k)
                    return x.args[0].args[0], (f if p.op != "Ne" else (lambda s, f=f: not f(s)))
        if p.op == "Not" and len(p.args) == 1:
            a = atom(p.args[0])
            if a is not None:
                return a[0], (lambda s, f=a[1]: not f(s))
        return None

    for p, b in pc:
        a = atom(p)
        if a is not None:
            groups.setdefault(repr(a[0]), []).append((a[1], bool(b)))
    for x, atoms in groups.items():
        if len(atoms) > 1 and not any(all(f(s) == b for f, b in atoms) for s in (-1, 0, 1)):
            return True
    return False


def holds(pc, env):
    """Does the assignment satisfy every (predicate, outcome) pair of a path condition?"""
    for p, b in pc:
        try:
            if bool(ev(p, env)) != bool(b):
                return False
        except ZeroDivisionError:
            return False
    return True


def sem_eq(got, want, grid, pc=()):
    """(equal?, witness).  Structural equality, else agreement on every grid point satisfying pc.
    At least one grid point must satisfy pc, otherwise the comparison is unrecognised (fail closed)."""
    if got == want:
        return True, None
    n = 0
    for env in grid:
        try:
            if pc and not holds(pc, env):
                continue
            n += 1
            g = ev(got, env)
            w = ev(want, env)
        except ZeroDivisionError:
            n -= 1
            continue
        if g != w:
            return False, {k: str(v) for k, v in env.items() if not callable(v)}
    if n == 0:
        raise Unrecognised("no grid point satisfies the path condition")
    return True, None
