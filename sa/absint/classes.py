"""Class-table abstract domain for total functions on Q that touch their argument only through `num` calls.

The argument x ranges over one class (N, f) of a finite partition of Q:
  N  an interval of integers for floor(x): (lo, hi) with None for an unbounded end
  f  the position of x - floor(x): '0', 'lo' (0,1/2), 'half', 'hi' (1/2,1)
Abstract rationals are the exact forms  Q('x', k) = x + k  and  Q('fl', k) = floor(x) + k,  and QC(p/q) constants.
Every predicate used by the code has a definite truth value on a class (or the class is reported undecided),
so each class follows exactly one MIR path and yields one form, which is compared with the specification's form.
"""
from fractions import Fraction

from .core import TOP, Const, Agg, Ref, Domain, enum
from ..numnames import classify


class Q:
    __slots__ = ("kind", "k")

    def __init__(self, kind, k):
        self.kind, self.k = kind, k

    def __eq__(self, o):
        return isinstance(o, Q) and (o.kind, o.k) == (self.kind, self.k)

    def __hash__(self):
        return hash(("Q", self.kind, self.k))

    def __repr__(self):
        base = "x" if self.kind == "x" else "floor(x)"
        return base if self.k == 0 else "%s%+d" % (base, self.k)


class QC:
    __slots__ = ("v",)

    def __init__(self, v):
        self.v = Fraction(v)

    def __eq__(self, o):
        return isinstance(o, QC) and o.v == self.v

    def __hash__(self):
        return hash(("QC", self.v))

    def __repr__(self):
        return "q(%s)" % self.v


class Part:
    """numer / denom of an abstract rational."""
    __slots__ = ("which", "q")

    def __init__(self, which, q):
        self.which, self.q = which, q

    def __eq__(self, o):
        return isinstance(o, Part) and (o.which, o.q) == (self.which, self.q)

    def __hash__(self):
        return hash(("Part", self.which, self.q))

    def __repr__(self):
        return "%s(%r)" % (self.which, self.q)


def partition(fine=False):
    if fine:
        ns = [(None, -3), (-2, -2), (-1, -1), (0, 0), (1, 1), (2, None)]
    else:
        ns = [(None, -2), (-1, -1), (0, 0), (1, None)]
    return [(n, f) for n in ns for f in ("0", "lo", "half", "hi")]


def class_name(c):
    (lo, hi), f = c
    if lo is None:
        n = "n<=%d" % hi
    elif hi is None:
        n = "n>=%d" % lo
    else:
        n = "n=%d" % lo
    return "(%s,f=%s)" % (n, f)


class ClassDomain(Domain):
    def __init__(self, cls):
        self.cls = cls
        self.N, self.f = cls

    # ---- arithmetic facts on the class -------------------------------------------------------------
    def canon(self, q):
        if isinstance(q, Q) and q.kind == "x" and self.f == "0":
            return Q("fl", q.k)
        return q

    def frac(self, q):
        q = self.canon(q)
        if isinstance(q, QC):
            fr = q.v - (q.v.numerator // q.v.denominator)
            return "0" if fr == 0 else ("lo" if fr < Fraction(1, 2) else ("half" if fr == Fraction(1, 2) else "hi"))
        return "0" if q.kind == "fl" else self.f

    def m_sign(self, k):
        """Sign of floor(x)+k over the class: 'nonneg' (>=0), 'neg' (<=-1) or None when the class straddles."""
        lo, hi = self.N
        lo2 = None if lo is None else lo + k
        hi2 = None if hi is None else hi + k
        if lo2 is not None and lo2 >= 0:
            return "nonneg"
        if hi2 is not None and hi2 <= -1:
            return "neg"
        return None

    def m_zero(self, k):
        lo, hi = self.N
        if lo is not None and hi is not None and lo == hi:
            return lo + k == 0
        lo2 = None if lo is None else lo + k
        hi2 = None if hi is None else hi + k
        if (lo2 is not None and lo2 > 0) or (hi2 is not None and hi2 < 0):
            return False
        return None

    def is_zero(self, q):
        q = self.canon(q)
        if isinstance(q, QC):
            return q.v == 0
        if q.kind == "x" and self.f != "0":
            return False
        return self.m_zero(q.k)

    def sign(self, q):
        """-1, 0, 1 or None."""
        q = self.canon(q)
        if isinstance(q, QC):
            return (q.v > 0) - (q.v < 0)
        z = self.is_zero(q)
        if z is None:
            return None
        if z:
            return 0
        s = self.m_sign(q.k)
        if s is None:
            return None
        if q.kind == "fl":
            if s == "neg":
                return -1
            # floor+k >= 0 and not zero
            return 1
        # x+k with f>0: m < x+k < m+1
        return 1 if s == "nonneg" else -1

    def floor(self, q):
        if isinstance(q, QC):
            return QC(q.v.numerator // q.v.denominator)
        return Q("fl", q.k)

    def ceil(self, q):
        if isinstance(q, QC):
            return QC(-((-q.v.numerator) // q.v.denominator))
        return Q("fl", q.k) if self.frac(q) == "0" else Q("fl", q.k + 1)

    def trunc(self, q):
        if isinstance(q, QC):
            n, d = q.v.numerator, q.v.denominator
            return QC(abs(n) // d * (1 if n >= 0 else -1))
        if self.frac(q) == "0":
            return Q("fl", q.k)
        s = self.m_sign(q.k)
        if s is None:
            return TOP
        return Q("fl", q.k) if s == "nonneg" else Q("fl", q.k + 1)

    def round(self, q):
        """num's Ratio::round: half away from zero."""
        if isinstance(q, QC):
            v = q.v
            fl = v.numerator // v.denominator
            fr = v - fl
            if fr == 0:
                return QC(fl)
            if fr < Fraction(1, 2):
                return QC(fl)
            if fr > Fraction(1, 2):
                return QC(fl + 1)
            return QC(fl + 1) if v > 0 else QC(fl)
        fr = self.frac(q)
        if fr in ("0", "lo"):
            return Q("fl", q.k)
        if fr == "hi":
            return Q("fl", q.k + 1)
        s = self.m_sign(q.k)
        if s is None:
            return TOP
        return Q("fl", q.k + 1) if s == "nonneg" else Q("fl", q.k)

    def addc(self, q, c):
        if isinstance(q, QC):
            return QC(q.v + c)
        if c.denominator != 1:
            return TOP
        return Q(q.kind, q.k + int(c))

    def add(self, a, b, sgn=1):
        if isinstance(b, QC):
            return self.addc(a, sgn * b.v) if isinstance(a, (Q, QC)) else TOP
        if isinstance(a, QC) and sgn == 1:
            return self.addc(b, a.v) if isinstance(b, (Q, QC)) else TOP
        return TOP

    # ---- calls -----------------------------------------------------------------------------------
    def call(self, it, name, args, store, term, frame):
        c = classify(name)
        if c is None:
            return None
        ty, m, trait = c
        vals = [it.read_ref(store, a) for a in args]
        if ty == "Rational":
            return None  # hand-written wrapper: analyse its MIR
        if ty == "Ratio":
            a = vals[0] if vals else None
            isq = isinstance(a, (Q, QC))
            if m in ("denom", "numer") and isq:
                return [(Part(m, a), store)]
            if m in ("trunc", "floor", "ceil", "round") and isq:
                return [(getattr(self, m)(a), store)]
            if m == "is_integer" and isq:
                return [(Const(self.frac(a) == "0"), store)]
            if m == "one" and not vals:
                return [(QC(1), store)]
            if m == "zero" and not vals:
                return [(QC(0), store)]
            if m == "is_zero" and isq:
                z = self.is_zero(a)
                return [(TOP if z is None else Const(z), store)]
            if m in ("is_negative", "is_positive") and isq:
                s = self.sign(a)
                if s is None:
                    return [(TOP, store)]
                return [(Const(s < 0 if m == "is_negative" else s > 0), store)]
            if m in ("add", "sub") and len(vals) == 2:
                return [(self.add(vals[0], vals[1], 1 if m == "add" else -1), store)]
            if m in ("add_assign", "sub_assign") and len(vals) == 2:
                r = self.add(vals[0], vals[1], 1 if m == "add_assign" else -1)
                return [(Const(()), it.write_ref(store, args[0], r))]
            if m == "neg":
                return [(TOP, store)]
            if m == "from_integer" and isinstance(a, Const):
                return [(QC(a.v), store)]
            return None
        if ty == "BigInt":
            a = vals[0] if vals else None
            if m == "is_one" and isinstance(a, Part) and a.which == "denom":
                return [(Const(self.frac(a.q) == "0"), store)]
            if m == "is_zero" and isinstance(a, Part) and a.which == "numer":
                z = self.is_zero(a.q)
                return [(TOP if z is None else Const(z), store)]
            if m == "from" and isinstance(a, Const):
                return [(QC(a.v), store)]
            return None
        return None


def rational_of(q):
    return Agg("adt", "rational::Rational", 0, "Rational", (q,))


SPEC = {
    "floor": lambda d: Q("fl", 0),
    "ceil": lambda d: d.ceil(Q("x", 0)),
    "round": lambda d: d.round(Q("x", 0)),
}
