"""Inductive exploration of a function whose loops may live in the function itself or in helpers it calls.

Every loop head (target of a back edge) of the analysed body and of every crate-local function reachable from it is a
stop point.  `from_entry` explores up to the first stop points; `turn` continues from one stop with a chosen store up to
the next stop points (or the return), resuming the suspended callers when the loop sits in a helper.  The state of a loop
is discovered from the MIR, not from names: the locals of the loop's own frame that the loop can change (assigned,
mutably borrowed or written by a call inside it) and that are live at its head, classified by their type."""
from . import core
from .core import Agg, Const, Ref, TOP
from .. import loops as L
from ..callgraph import CallGraph


class Seg:
    """One explored segment: ends at a loop head ('stop'), a return or a panic."""
    __slots__ = ("kind", "loop", "value", "store", "o", "frame", "body", "site")

    def __init__(self, o, top_body):
        self.o = o
        self.kind = o.kind
        self.value = o.value
        self.store = o.store
        self.site = o.site
        if o.kind == "stop":
            if isinstance(o.value, tuple):
                self.loop = o.value
                self.body, depth = o.where
                self.frame = depth + 1
            else:
                self.loop = (top_body.path, o.value)
                self.body = top_body
                self.frame = 1
        else:
            self.loop = None
            self.body = top_body
            self.frame = 1

    def __repr__(self):
        return "<seg %s %s>" % (self.kind, self.loop or self.value)


class Induct:
    def __init__(self, facts, body, dom_factory, budget=200000, crate="anything", exclude=()):
        """exclude: functions that the domain does not follow (their loops are not stop points)."""
        self.facts, self.body, self.dom_factory, self.budget = facts, body, dom_factory, budget
        cg = CallGraph(facts, crate)
        self.stops = {}
        for p in sorted(cg.reachable([body.path], stop=set(exclude))):
            b = facts.fn(p, crate)
            if b is None or b.promoted >= 0 or "{closure" in p:
                continue
            hs = L.loop_heads(b)
            if hs:
                self.stops[p] = set(hs)
        self.top_stops = self.stops.get(body.path, set())
        self.dom = None
        self.it = None

    def all_loops(self):
        return sorted((p, h) for p, hs in self.stops.items() for h in hs)

    def _fresh(self):
        self.dom = self.dom_factory()
        self.it = core.Interp(self.facts, self.dom, budget=self.budget)
        self.it.global_stops = {p: hs for p, hs in self.stops.items() if p != self.body.path}
        return self.dom, self.it

    def from_entry(self, args, store=None):
        dom, it = self._fresh()
        outs = it.run(self.body, args, dict(store or {}), stop=set(self.top_stops))
        return [Seg(o, self.body) for o in outs]

    def turn(self, seg, store):
        """Explore from the loop head at which `seg` stopped, with `store`, to the next stop points / the end."""
        dom, it = self._fresh()
        if seg.o.cont:
            outs = it.resume(seg.o, dict(store), top_stop=set(self.top_stops))
        else:
            outs = it.run(self.body, [], {}, start=(seg.loop[1], dict(store)), stop=set(self.top_stops))
        return [Seg(o, self.body) for o in outs]

    # ---- loop state ---------------------------------------------------------------------------------------------------
    def variant(self, seg):
        """{local: type} of the loop's own frame that the loop can change and that are live at its head."""
        b = seg.body
        return {l: b.local_ty(l) for l in L.variant_locals(b, seg.loop[1])}

    def invariant_live(self, seg):
        """{local: type}: locals of the loop's frame live at the head that the loop does not change."""
        from .. import cfg as _cfg
        b = seg.body
        live = getattr(b, "_live", None) or _cfg.liveness(b)
        b._live = live
        v = L.variant_locals(b, seg.loop[1])
        return {l: b.local_ty(l) for l in set(live[0][seg.loop[1]]) | set(live[1]) if l not in v}

    def read(self, seg_or_store, frame, local):
        st = seg_or_store.store if isinstance(seg_or_store, Seg) else seg_or_store
        return self.it.read_ref(st, Ref(frame, local))


def classify_state(types):
    """Split {local: type} into flags (bool, Option<int>), counters (unsigned / signed ints, Option<int> payloads) and
    exact numbers (BigInt / Ratio / Rational)."""
    flags, counters, numbers, other = [], [], [], []
    for l, ty in sorted(types.items()):
        t = ty.replace(" ", "")
        if t == "bool":
            flags.append(l)
        elif t in ("u8", "u16", "u32", "u64", "usize", "i8", "i16", "i32", "i64", "isize"):
            counters.append(l)
        elif t.startswith("std::option::Option<") and t[len("std::option::Option<"):-1] in ("u8", "u16", "u32", "u64", "usize", "i32", "i64"):
            flags.append(l)
            counters.append(l)
        elif "Ratio<" in t or t.startswith("rational::Rational") or t.startswith("num::BigInt") or t.startswith("num::BigUint"):
            numbers.append(l)
        else:
            other.append(l)
    return flags, counters, numbers, other


def flag_of(v):
    """The finite part of a state component: bool constant, or Some/None of an Option."""
    if isinstance(v, Const) and isinstance(v.v, bool):
        return v.v
    if isinstance(v, Const) and isinstance(v.v, int) and v.v in (0, 1):
        return bool(v.v)
    if isinstance(v, Agg) and v.path == "std::option::Option":
        return "Some" if v.vi == 1 else "None"
    return None
