"""Exact finite partition of the Unicode scalar values with respect to the tests a set of MIR bodies performs.

Atoms are maximal intervals of code points that no comparison constant of the analysed bodies and no modelled
character predicate distinguishes; one representative per atom is therefore an exact abstraction: every test
has the same outcome on all members of the atom.  A predicate that is not modelled makes the partition
'undecided' (fail closed).
"""
from .. import facts as F

WHITE_SPACE = [(0x09, 0x0D), (0x20, 0x20), (0x85, 0x85), (0xA0, 0xA0), (0x1680, 0x1680), (0x2000, 0x200A),
               (0x2028, 0x2029), (0x202F, 0x202F), (0x205F, 0x205F), (0x3000, 0x3000)]
ASCII_WS = [(0x09, 0x0A), (0x0C, 0x0D), (0x20, 0x20)]

PREDICATES = {
    "std::char::methods::<impl char>::is_whitespace": WHITE_SPACE,
    "std::char::methods::<impl char>::is_ascii_whitespace": ASCII_WS,
    "std::char::methods::<impl char>::is_ascii_digit": [(0x30, 0x39)],
    "std::char::methods::<impl char>::is_ascii_alphabetic": [(0x41, 0x5A), (0x61, 0x7A)],
    "std::char::methods::<impl char>::is_ascii_alphanumeric": [(0x30, 0x39), (0x41, 0x5A), (0x61, 0x7A)],
    "std::char::methods::<impl char>::is_ascii_lowercase": [(0x61, 0x7A)],
    "std::char::methods::<impl char>::is_ascii_uppercase": [(0x41, 0x5A)],
    "std::char::methods::<impl char>::is_ascii": [(0x00, 0x7F)],
    "std::char::methods::<impl char>::is_ascii_punctuation": [(0x21, 0x2F), (0x3A, 0x40), (0x5B, 0x60), (0x7B, 0x7E)],
}
UTF8_LEN = [(0x00, 0x7F), (0x80, 0x7FF), (0x800, 0xFFFF), (0x10000, 0x10FFFF)]


def in_set(c, ranges):
    return any(lo <= c <= hi for lo, hi in ranges)


def char_constants(bodies):
    """All char constants the bodies compare against, and the char predicates they call."""
    consts = set()
    preds = set()
    unknown = set()
    for b in bodies:
        for blk in b.blocks:
            if blk["cleanup"]:
                continue
            for s in blk["stmts"]:
                if s["k"] != "assign":
                    continue
                rv = s["rv"]
                if rv["k"] == "binop":
                    for o in (rv["a"], rv["b"]):
                        if o["k"] == "const" and o.get("ty") == "char" and o.get("val") is not None:
                            consts.add(int(o["val"]))
            t = blk["term"]["t"]
            if t["k"] == "switch" and t.get("discr_ty") == "char":
                for v, _ in t["targets"]:
                    consts.add(int(v))
            if t["k"] == "call":
                name = F.callee(t)
                if name.startswith("std::char::methods::<impl char>::is_"):
                    if name in PREDICATES:
                        preds.add(name)
                    else:
                        unknown.add(name)
                for a in t["args"]:
                    if a["k"] == "const" and a.get("ty") == "char" and a.get("val") is not None:
                        consts.add(int(a["val"]))
    return consts, preds, unknown


def atoms(consts, preds):
    """Sorted list of (lo, hi) intervals partitioning 0..0x10FFFF (surrogates excluded)."""
    cuts = {0, 0x110000, 0xD800, 0xE000}
    for c in consts:
        cuts.add(c)
        cuts.add(c + 1)
    for rs in [PREDICATES[p] for p in preds] + [UTF8_LEN, WHITE_SPACE]:
        for lo, hi in rs:
            cuts.add(lo)
            cuts.add(hi + 1)
    cs = sorted(c for c in cuts if 0 <= c <= 0x110000)
    out = []
    for a, b in zip(cs, cs[1:]):
        if a >= 0xD800 and b <= 0xE000:
            continue
        out.append((a, b - 1))
    return out


def describe(c):
    if c == "EOF":
        return "EOF"
    if 0x20 < c < 0x7F:
        return "'%s'" % chr(c)
    return "U+%04X" % c
