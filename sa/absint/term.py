"""Symbolic-term domain with path conditions.

Numeric values are terms over symbols: Sym('a'), K(3/2) exact constants, T(op, args...).  A predicate on a
symbolic term forks the path and records (predicate term, outcome) in the path condition kept in the store under
('pc',); asking the same predicate again on the same path gives the same answer, so only consistent paths are
explored.  Constants fold exactly (Fractions).  Rules inspect Outcome.value (a term) and the path condition.
"""
from fractions import Fraction

from .core import TOP, Const, Agg, Ref, FnV, Domain, enum, some, NONE, UNIT, ok, err
from ..numnames import classify, OPS
from ..facts import fmt_template as F_fmt


class Sym:
    __slots__ = ("name",)

    def __init__(self, name):
        self.name = name

    def __eq__(self, o):
        return isinstance(o, Sym) and o.name == self.name

    def __hash__(self):
        return hash(("Sym", self.name))

    def __repr__(self):
        return self.name


class K:
    __slots__ = ("v",)

    def __init__(self, v):
        self.v = Fraction(v)

    def __eq__(self, o):
        return isinstance(o, K) and o.v == self.v

    def __hash__(self):
        return hash(("K", self.v))

    def __repr__(self):
        return str(self.v)


class T:
    __slots__ = ("op", "args", "_h")

    def __init__(self, op, *args):
        self.op, self.args = op, tuple(args)
        self._h = None

    def __eq__(self, o):
        return o is self or (isinstance(o, T) and o.op == self.op and hash(o) == hash(self) and o.args == self.args)

    def __hash__(self):
        h = self._h
        if h is None:
            h = self._h = hash(("T", self.op, self.args))
        return h

    def __repr__(self):
        if self.op in ("+", "-", "*", "/") and len(self.args) == 2:
            return "(%r %s %r)" % (self.args[0], self.op, self.args[1])
        return "%s(%s)" % (self.op, ", ".join(repr(a) for a in self.args))


class VecV:
    __slots__ = ("items",)

    def __init__(self, items):
        self.items = tuple(items)

    def __eq__(self, o):
        return isinstance(o, VecV) and o.items == self.items

    def __hash__(self):
        return hash(("Vec", self.items))

    def __repr__(self):
        return "vec%r" % (list(self.items),)


class IterV:
    __slots__ = ("items", "pos")

    def __init__(self, items, pos=0):
        self.items, self.pos = tuple(items), pos

    def __eq__(self, o):
        return isinstance(o, IterV) and (o.items, o.pos) == (self.items, self.pos)

    def __hash__(self):
        return hash(("Iter", self.items, self.pos))

    def __repr__(self):
        return "iter%r@%d" % (list(self.items), self.pos)


def is_num(v):
    return isinstance(v, (Sym, K, T)) or (isinstance(v, Const) and isinstance(v.v, int) and not isinstance(v.v, bool))


def as_k(v):
    if isinstance(v, K):
        return v.v
    if isinstance(v, Const) and isinstance(v.v, int) and not isinstance(v.v, bool):
        return Fraction(v.v)
    return None


def fold(op, a, b=None):
    """Exact constant folding; returns None when not foldable."""
    x = as_k(a)
    y = as_k(b) if b is not None else None
    if x is None or (b is not None and y is None):
        return None
    try:
        if op == "+":
            return K(x + y)
        if op == "-":
            return K(x - y)
        if op == "*":
            return K(x * y)
        if op == "/":
            return K(x / y) if y != 0 else None
        if op == "neg":
            return K(-x)
        if op == "recip":
            return K(1 / x) if x != 0 else None
        if op == "pow":
            if y.denominator != 1:
                return None
            if x == 0 and y < 0:
                return None
            return K(x ** int(y))
        if op == "new":
            return K(x / y) if y != 0 else None
    except (ZeroDivisionError, OverflowError):
        return None
    return None


PRED = {"is_zero", "is_one", "is_integer", "is_negative", "is_positive"}


def pred_const(m, k):
    if m == "is_zero":
        return k == 0
    if m == "is_one":
        return k == 1
    if m == "is_integer":
        return k.denominator == 1
    if m == "is_negative":
        return k < 0
    if m == "is_positive":
        return k > 0
    return None


class TermDomain(Domain):
    def __init__(self, oracle=None, no_inline=(), uninterp=None):
        self.oracle = oracle
        self.no_inline = set(no_inline)
        self.uninterp = uninterp  # name -> bool: the call becomes an uninterpreted term

    @staticmethod
    def log(store):
        return store.get(("log",), ())

    @staticmethod
    def with_log(store, ev):
        s = dict(store)
        s[("log",)] = store.get(("log",), ()) + (ev,)
        if len(s[("log",)]) > 48:
            from .core import Undecided
            raise Undecided("a path performs more than 48 effects: an effect loop the analysis cannot bound")
        return s

    def should_inline(self, name):
        return name not in self.no_inline

    # ---- path conditions ----------------------------------------------------------------------
    @staticmethod
    def pc(store):
        return store.get(("pc",), ())

    @staticmethod
    def with_pc(store, p, b):
        s = dict(store)
        s[("pc",)] = store.get(("pc",), ()) + ((p, b),)
        return s

    @staticmethod
    def feasible(store):
        """Integer comparisons of one term against constants must have a common solution."""
        groups = {}
        for p, b in store.get(("pc",), ()):
            if isinstance(p, T) and p.op in ("Eq", "Ne", "Lt", "Le", "Gt", "Ge", "==") and len(p.args) == 2 \
                    and isinstance(p.args[1], Const) and isinstance(p.args[1].v, int) and not isinstance(p.args[0], Const):
                groups.setdefault(p.args[0], []).append((p.op, int(p.args[1].v), b))
        import operator
        ops = {"Eq": operator.eq, "==": operator.eq, "Ne": operator.ne, "Lt": operator.lt, "Le": operator.le,
               "Gt": operator.gt, "Ge": operator.ge}
        for t, cs in groups.items():
            cands = set()
            for _, c, _ in cs:
                cands |= {c - 1, c, c + 1}
            if not any(all(ops[o](x, c) == b for o, c, b in cs) for x in cands):
                return False
        return TermDomain.feasible_divmod(store.get(("pc",), ()))

    @staticmethod
    def feasible_divmod(pcs):
        """Quotient and remainder of one division: with q = X div D known to be 0 (possibly seen through a to_u8-like
        narrowing) and the remainder X - D*q known to be zero, X is zero; X = R * k (k a non-zero constant) with R
        known to be non-zero contradicts that.  Prunes only paths no execution takes."""
        zero_q = set()
        for p, b in pcs:
            if b is True and isinstance(p, T) and p.op in ("Eq", "==") and len(p.args) == 2 \
                    and isinstance(p.args[1], Const) and type(p.args[1].v) is int and p.args[1].v == 0:
                q = p.args[0]
                while isinstance(q, T) and q.op.startswith("to_") and len(q.args) == 1:
                    q = q.args[0]
                if isinstance(q, T) and q.op == "idiv" and len(q.args) == 2:
                    zero_q.add(q)
        if not zero_q:
            return True
        nonzero = {p.args[0] for p, b in pcs if b is False and isinstance(p, T) and p.op == "is_zero" and len(p.args) == 1}
        for p, b in pcs:
            if not (b is True and isinstance(p, T) and p.op == "is_zero" and len(p.args) == 1):
                continue
            e = p.args[0]
            if not (isinstance(e, T) and e.op == "-" and len(e.args) == 2):
                continue
            x, sub = e.args
            if not (isinstance(sub, T) and sub.op == "*" and len(sub.args) == 2):
                continue
            for d, q in (sub.args, sub.args[::-1]):
                if q in zero_q and q.args == (x, d):
                    # x is zero on this path
                    if x in nonzero:
                        return False
                    if isinstance(x, T) and x.op == "*" and len(x.args) == 2:
                        for r, k in (x.args, x.args[::-1]):
                            kv = getattr(k, "v", None)
                            if isinstance(k, (Const, K)) and type(kv) is not bool and kv not in (None, 0) and r in nonzero:
                                return False
        return True

    def decide(self, store, p):
        for q, b in self.pc(store):
            if q == p:
                return b
        return None

    def fork(self, store, p):
        d = self.decide(store, p)
        if d is not None:
            return [(Const(d), store)]
        outs = [(Const(True), self.with_pc(store, p, True)), (Const(False), self.with_pc(store, p, False))]
        return [o for o in outs if self.feasible(o[1])]

    def split_switch(self, it, d, term, store):
        """Symbolic discriminant: one outcome per distinct target, with the path condition recorded."""
        vals = [int(v) for v, _ in term["targets"]]
        is_bool = term.get("discr_ty") == "bool"
        outs = []
        if is_bool:
            p = d
            dec = self.decide(store, p)
            for bv in (False, True):
                if dec is not None and dec != bv:
                    continue
                tgt = term["otherwise"]
                for v, x in term["targets"]:
                    if int(v) == int(bv):
                        tgt = x
                s = store if dec is not None else self.with_pc(store, p, bv)
                if self.feasible(s):
                    outs.append((tgt, s))
            return outs
        for v, x in term["targets"]:
            p = T("==", d, Const(int(v)))
            dec = self.decide(store, p)
            if dec is False:
                continue
            # all other values are then false
            s = store if dec else self.with_pc(store, p, True)
            if self.feasible(s):
                outs.append((x, s))
            if dec:
                return outs
        s = store
        for v in vals:
            p = T("==", d, Const(v))
            if self.decide(s, p) is None:
                s = self.with_pc(s, p, False)
        if self.feasible(s):
            outs.append((term["otherwise"], s))
        return outs

    # ---- operators on primitive ints -----------------------------------------------------------
    def binop(self, op, a, b):
        if isinstance(a, Const) and isinstance(b, Const):
            return None
        if not (is_num(a) or is_num(b)) and not isinstance(a, (T, Sym)) and not isinstance(b, (T, Sym)):
            return None
        m = {"Add": "+", "Sub": "-", "Mul": "*", "AddWithOverflow": "+", "SubWithOverflow": "-",
             "MulWithOverflow": "*", "AddUnchecked": "+", "SubUnchecked": "-", "MulUnchecked": "*"}.get(op)
        if m:
            r = T("i" + m, a, b)
            if op.endswith("WithOverflow"):
                return Agg("tuple", None, None, None, (r, Const(False)))
            return r
        if op in ("Eq", "Ne", "Lt", "Le", "Gt", "Ge"):
            if a == b:
                return Const(op in ("Eq", "Le", "Ge"))
            return T(op, a, b)
        if op in ("Div", "Rem"):
            return T("idiv" if op == "Div" else "irem", a, b)
        return None

    def unop(self, op, a):
        if isinstance(a, (T, Sym)):
            return T(op, a)
        return None

    def cast(self, kind, v, ty):
        if isinstance(v, (T, Sym)) and kind.startswith("IntToInt"):
            return T("cast:" + ty, v)
        return None

    # ---- calls -----------------------------------------------------------------------------------
    def call(self, it, name, args, store, term, frame):
        vals = [it.read_ref(store, a) for a in args]
        # a reference to a reference (`&&Cow<str>` handed to a filter closure's comparison) denotes the value behind both
        for i_, v_ in enumerate(vals):
            k_ = 0
            while isinstance(v_, Ref) and k_ < 4:
                v_ = it.read_ref(store, v_)
                k_ += 1
            vals[i_] = v_
        self.cur_term = term
        if self.oracle is not None:
            r = self.oracle(self, it, name, args, vals, store)
            if r is not None:
                return r
        r = self.std_models(it, name, args, vals, store)
        if r is not None:
            return r
        r = self.opaque_option(it, name, args, vals, store)
        if r is not None:
            return r
        r = self.opaque_try(it, name, args, vals, store)
        if r is not None:
            return r
        c = classify(name)
        if c is not None:
            ty, m, trait = c
            if ty in ("Ratio", "BigInt", "num"):
                r = self.num_call(it, ty, m, trait, args, vals, store)
                if r is not None:
                    return r
        if self.uninterp is not None and self.uninterp(name):
            r = it.std_call(name, args, store)
            if r is not None:
                return r
            return [(T("call:" + name, *[self.resolved(it, store, v) for v in vals]), self.mutated_by(it, name, args, vals, store, term))]
        return None

    def resolved(self, it, store, v, depth=0):
        """The value with the references inside it replaced by what they point at (`Some(&this_version)`): a term must
        not mention stack slots, which mean nothing once the frame is gone."""
        if depth > 4:
            return v
        if isinstance(v, Ref):
            return self.resolved(it, store, it.read_ref(store, v), depth + 1)
        if isinstance(v, Agg) and v.kind in ("adt", "tuple") and any(isinstance(f, (Ref, Agg)) for f in v.fields):
            fs = tuple(self.resolved(it, store, f, depth + 1) for f in v.fields)
            if fs != tuple(v.fields):
                return Agg(v.kind, v.path, v.vi, v.vname, fs)
        return v

    OPTION_CLOSURE_METHODS = ("map", "and_then", "map_or", "map_or_else", "unwrap_or_else", "filter", "ok_or_else", "or_else",
                              "is_some_and", "is_none_or", "inspect", "zip", "xor", "unwrap_or_default")

    def opaque_try(self, it, name, args, vals, store):
        """`?` on an opaque Option / Result term: split like a `match` - the payload is field0 of the term on either side."""
        if not name.endswith(" as std::ops::Try>::branch") or not vals or not isinstance(vals[0], (T, Sym)):
            return None
        is_opt = name.startswith("<std::option::Option<")
        if not is_opt and not name.startswith("<std::result::Result<"):
            return None
        d = T("discr", vals[0])
        good = 1 if is_opt else 0
        outs = []
        for cont in (True, False):
            st = store
            pg = T("==", d, Const(good))
            pb = T("==", d, Const(1 - good))
            dg, db = self.decide(st, pg), self.decide(st, pb)
            known = dg if dg is not None else (None if db is None else (not db))
            if known is not None and known != cont:
                continue
            if known is None:
                st = self.with_pc(st, pg, cont)
                if not self.feasible(st):
                    continue
            if cont:
                outs.append((enum("std::ops::ControlFlow", 0, "Continue", T("field0", vals[0])), st))
            else:
                outs.append((enum("std::ops::ControlFlow", 1, "Break", NONE if is_opt else err(T("field0", vals[0]))), st))
        return outs or None

    def opaque_option(self, it, name, args, vals, store):
        """A closure-taking Option method on an opaque term (the Option an uninterpreted call returned): the term is split
        like a `match` would split it - None, or Some(field0(term)) - and the method's own model runs on each side."""
        if not (name.startswith("std::option::Option::<T>::") or name.startswith("core::option::Option::<T>::")):
            return None
        if name.rsplit("::", 1)[-1] not in self.OPTION_CLOSURE_METHODS or not vals or not isinstance(vals[0], (T, Sym)):
            return None
        from . import stdmodels as _sm
        d = T("discr", vals[0])
        outs = []
        for is_some in (True, False):
            st = store
            p1 = T("==", d, Const(1))
            p0 = T("==", d, Const(0))
            d1, d0 = self.decide(st, p1), self.decide(st, p0)
            known = d1 if d1 is not None else (None if d0 is None else (not d0))
            if known is not None and known != is_some:
                continue
            if known is None:
                st = self.with_pc(st, p1, is_some)
                if not self.feasible(st):
                    continue
            conc = some(T("field0", vals[0])) if is_some else NONE
            if isinstance(args[0], Ref):
                st = it.write_ref(st, args[0], conc)
                a2 = list(args)
            else:
                a2 = [conc] + list(args[1:])
            r = _sm.call(it, name, a2, st)
            if r is None:
                r = it.std_call(name, a2, st)
            if r is None:
                return None
            outs.extend(r)
        return outs or None

    def mutated_by(self, it, name, args, vals, store, term):
        """An uninterpreted callee may write through a `&mut` it is given: a referent whose value is known (an aggregate,
        a sequence, a constant) is no longer that value afterwards.  Opaque referents (symbols, terms) stay as they are:
        nothing is known about them before either."""
        body = getattr(it, "_cur_body", None)
        if body is None or term is None:
            return store
        from .stdmodels import Seq
        for i, a in enumerate(args):
            if not isinstance(a, Ref) or i >= len(term["args"]):
                continue
            o = term["args"][i]
            if o["k"] not in ("copy", "move") or o["place"]["proj"]:
                continue
            if not body.local_ty(o["place"]["local"]).replace("& mut", "&mut").startswith("&mut"):
                continue
            old = vals[i]
            if isinstance(old, (Seq, Const, VecV)) or (isinstance(old, Agg) and old.kind != "closure"):
                store = it.write_ref(store, a, T("mutated:" + name, old))
        return store

    def num_call(self, it, ty, m, trait, args, vals, store):
        a = vals[0] if vals else None
        b = vals[1] if len(vals) > 1 else None
        if m in OPS and m.endswith("_assign"):
            op = OPS[m][0]
            r = fold(op, a, b) or T(op, a, b)
            return [(UNIT, it.write_ref(store, args[0], r))]
        if m in ("add", "sub", "mul", "div") and len(vals) == 2:
            op = OPS[m]
            return [(fold(op, a, b) or T(op, a, b), store)]
        if m == "neg":
            return [(fold("neg", a) or T("neg", a), store)]
        if m == "recip":
            return [(fold("recip", a) or T("recip", a), store)]
        if m == "pow" and len(vals) == 2:
            return [(fold("pow", a, b) or T("pow", a, b), store)]
        if m == "new" and len(vals) == 2:
            return [(fold("new", a, b) or T("new", a, b), store)]
        if m in ("one", "zero") and not vals:
            return [(K(1 if m == "one" else 0), store)]
        if m == "from" and len(vals) == 1 and isinstance(a, Const) and isinstance(a.v, int):
            return [(K(a.v), store)]
        if m == "from" and len(vals) == 1 and isinstance(a, (T, Sym)):
            return [(a, store)]
        if m == "from_integer" and len(vals) == 1:
            return [(a if as_k(a) is None else K(as_k(a)), store)]
        if m in PRED and len(vals) == 1:
            k = as_k(a)
            if k is not None:
                return [(Const(pred_const(m, k)), store)]
            if isinstance(a, T) and a.op == "denom" and m == "is_one" and self.known_integer(a.args[0], store):
                return [(Const(True), store)]
            if m == "is_integer" and self.known_integer(a, store):
                return [(Const(True), store)]
            if isinstance(a, T) and a.op == "denom" and m == "is_one":
                return self.fork(store, T("is_integer", a.args[0]))
            if isinstance(a, T) and a.op == "numer" and m == "is_zero":
                return self.fork(store, T("is_zero", a.args[0]))
            return self.fork(store, T(m, a))
        if m in ("numer", "denom") and len(vals) == 1:
            k = as_k(a)
            if k is not None:
                return [(K(k.numerator if m == "numer" else k.denominator), store)]
            return [(T(m, a), store)]
        if m in ("magnitude", "into_parts") and len(vals) == 1 and m == "magnitude":
            return [(T("abs", a), store)]
        if m in ("trunc", "floor", "ceil", "round", "abs", "signum", "sign", "to_integer", "fract") and len(vals) == 1:
            return [(T(m, a), store)]
        if m in ("to_i32", "to_i64", "to_u32", "to_f64", "to_f32", "to_i128", "to_u128", "to_u64", "to_usize", "to_isize",
                 "to_i8", "to_i16", "to_u8", "to_u16") and len(vals) == 1:
            p = T("fits_" + m[3:], a)
            d = self.decide(store, p)
            outs = []
            if d is not False:
                outs.append((some(T(m, a)), store if d else self.with_pc(store, p, True)))
            if d is not True:
                outs.append((NONE, store if d is False else self.with_pc(store, p, False)))
            return outs
        return None

    # ---- integrality ---------------------------------------------------------------------------
    def entails(self, store, p, b=True):
        """The path condition entails p == b (checked by refuting the negation over integer comparisons)."""
        d = self.decide(store, p)
        if d is not None:
            return d == b
        return not self.feasible(self.with_pc(store, p, not b))

    def known_integer(self, t, store):
        k = as_k(t)
        if k is not None:
            return k.denominator == 1
        if not isinstance(t, T):
            return False
        if t.op in ("round", "floor", "ceil", "trunc", "numer", "denom", "to_integer"):
            return True
        if self.decide(store, T("is_integer", t)) is True:
            return True
        if t.op in ("+", "-", "*"):
            return all(self.known_integer(x, store) for x in t.args)
        if t.op == "neg":
            return self.known_integer(t.args[0], store)
        if t.op == "pow":
            base, n = t.args
            return self.known_integer(base, store) and self.entails(store, T("Ge", n, Const(0)))
        if t.op == "/":
            a, b = t.args
            # integer / b^n with n <= 0 is integer * b^|n|
            if isinstance(b, T) and b.op == "pow" and self.known_integer(a, store) \
                    and self.known_integer(b.args[0], store) and self.entails(store, T("Le", b.args[1], Const(0))):
                return True
        return False

    def std_models(self, it, name, args, vals, store):
        a = vals[0] if vals else None
        if name.startswith("core::fmt::rt::Argument::<'_>::new_") and len(vals) == 1:
            return [(T(name.split("::new_")[-1], a), store)]
        if name == "std::fmt::Arguments::<'a>::new" and len(vals) == 2:
            tpl = a.v if isinstance(a, Const) and isinstance(a.v, bytes) else None
            fs = vals[1].fields if isinstance(vals[1], Agg) else (vals[1],)
            return [(T("fmt", Const(tuple(F_fmt(tpl))) if tpl is not None else TOP, *fs), store)]
        if name == "std::fmt::Arguments::<'a>::from_str" and len(vals) == 1:
            return [(T("fmt", Const((a.v,)) if isinstance(a, Const) else TOP), store)]
        if (name.endswith("IntoIterator>::into_iter") or name == "std::iter::IntoIterator::into_iter") and isinstance(a, IterV):
            return [(a, store)]
        if name == "std::iter::Iterator::rev" and isinstance(a, IterV):
            return [(IterV(tuple(reversed(a.items[a.pos:])), 0), store)]
        if (name.endswith("as std::iter::Iterator>::next") or name == "std::iter::Iterator::next") and isinstance(a, IterV):
            if a.pos < len(a.items):
                return [(some(a.items[a.pos]), it.write_ref(store, args[0], IterV(a.items, a.pos + 1)))]
            return [(NONE, store)]
        if name.endswith("TryFrom<std::vec::Vec<T, A>> for [T; N]>::try_from") and len(vals) == 1:
            # Vec<T> -> [T; N]: Ok(the elements) iff the vector holds exactly N, else Err(the vector back)
            import re as _re
            g = (getattr(self, "cur_term", None) or {}).get("callee", {}).get("generics", "")
            m_ = _re.search(r";\s*(\d+)_usize\]", g)
            items = a.items if isinstance(a, VecV) else (a.items if type(a).__name__ == "Seq" else None)
            if m_ and items is not None:
                n_ = int(m_.group(1))
                if len(items) == n_:
                    return [(ok(Agg("array", None, None, None, tuple(items))), store)]
                return [(err(a), store)]
        if name == "std::vec::Vec::<T, A>::is_empty" and isinstance(a, VecV):
            return [(Const(len(a.items) == 0), store)]
        if name in ("std::convert::Into::into", "std::convert::From::from") and len(vals) == 1 \
                and (isinstance(a, Const) or is_num(a)):
            return [(a, store)]
        if name == "std::vec::Vec::<T, A>::len" and isinstance(a, VecV):
            return [(Const(len(a.items)), store)]
        if name == "std::vec::Vec::<T>::new":
            return [(VecV(()), store)]
        if name == "std::vec::Vec::<T, A>::push" and isinstance(a, VecV):
            return [(UNIT, it.write_ref(store, args[0], VecV(a.items + (vals[1],))))]
        if (name.endswith("IntoIterator>::into_iter") or name == "std::iter::IntoIterator::into_iter") and isinstance(a, VecV):
            return [(IterV(a.items, 0), store)]
        # num::range(lo, hi): a counting iterator - modelled by the number of items it still has (hi - lo), which is what a
        # loop over it counts down
        if name in ("num::range", "num::iter::range", "num_iter::range") and len(vals) == 2:
            lo, hi = vals
            zero = (isinstance(lo, K) and lo.v == 0) or (isinstance(lo, Const) and lo.v == 0)
            return [(Agg("numrange", None, None, None, (hi if zero else T("-", hi, lo),)), store)]
        if (name.endswith("IntoIterator>::into_iter") or name == "std::iter::IntoIterator::into_iter") and isinstance(a, Agg) and a.kind == "numrange":
            return [(a, store)]
        if name.endswith("as std::iter::Iterator>::next") and isinstance(a, Agg) and a.kind == "numrange":
            rem = a.field(0)
            kz = rem.v == 0 if isinstance(rem, (K, Const)) else None
            outs = []
            for z, st in ([(kz, store)] if kz is not None else [(b_.v, s_) for b_, s_ in self.fork(store, T("is_zero", rem))]):
                if z:
                    outs.append((NONE, st))
                else:
                    left = K(rem.v - 1) if isinstance(rem, K) else (Const(rem.v - 1) if isinstance(rem, Const) else T("-", rem, K(1)))
                    outs.append((some(T("range-item", rem)), it.write_ref(st, args[0], Agg("numrange", None, None, None, (left,)))))
            return outs
        if name == "<std::vec::IntoIter<T, A> as std::iter::Iterator>::next" and isinstance(a, IterV):
            if a.pos < len(a.items):
                return [(some(a.items[a.pos]), it.write_ref(store, args[0], IterV(a.items, a.pos + 1)))]
            return [(NONE, store)]
        return None

    def discr_of(self, v):
        if isinstance(v, (T, Sym)):
            return T("discr", v)
        return None

    def field_of(self, v, i):
        """A field (or enum payload) of a symbolic value is a term over it, so that provenance survives pattern matching."""
        if isinstance(v, (T, Sym)):
            return T("field%d" % i, v)
        return TOP


class EffectDomain(TermDomain):
    """TermDomain in which every unknown callee is an uninterpreted term and designated callees are logged as effects.

    effects: {callee name (exact) or predicate: (label, kind)} with kind in
      'unit'      returns ()
      'value'     returns an uninterpreted term
      'fallible'  forks Ok(()) / Err(sym) and logs ('fail', label) on the Err side
      'fallible-value'  forks Ok(term) / Err(sym)
    The log lives in the store under ('log',) as a tuple of (label, arg values...)."""

    def __init__(self, effects, oracle=None, no_inline=()):
        super().__init__(oracle=oracle, no_inline=no_inline, uninterp=lambda n: True)
        self.effects = effects

    def on_assert(self, it, body, t, sp, st, frame):
        m = t["msg"]
        return not ("Misaligned" in m or "NullPointer" in m or "verflow" in m)

    def effect_of(self, name):
        e = self.effects.get(name)
        if e is not None:
            return e
        for k, v in self.effects.items():
            if callable(k) and k(name):
                return v
        return None

    def call(self, it, name, args, store, term, frame):
        e = self.effect_of(name)
        if e is not None:
            label, kind = e
            vals = [it.read_ref(store, a) for a in args]
            st = self.with_log(store, (label,) + tuple(vals))
            if kind == "unit":
                return [(UNIT, st)]
            if kind == "value":
                return [(T("call:" + name, *vals), st)]
            if kind == "fallible":
                from .core import ok, err
                return [(ok(UNIT), st), (err(Sym(label + "_error")), self.with_log(st, ("fail", label)))]
            if kind == "fallible-value":
                from .core import ok, err
                return [(ok(T("call:" + name, *vals)), st), (err(Sym(label + "_error")), self.with_log(st, ("fail", label)))]
        return super().call(it, name, args, store, term, frame)
