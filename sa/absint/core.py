"""A small path-exploring abstract interpreter over anyscan MIR.

Values are immutable Python objects:
  TOP                         unknown
  Const(v)                    integer / bool / char / str constant
  Agg(kind, path, vi, vname, fields)   struct / tuple / enum variant / closure; fields: tuple of values
  Ref(frame, local, proj)     reference to a place in some frame (proj: tuple of field indices)
  FnV(path)                   function item / closure coerced to fn pointer
  domain leaves               anything else; opaque to the core, understood by the Domain

Execution explores every feasible path: a switch on a constant follows one edge, a switch on TOP forks.
Predicates are case-split by the domain at the call (Domain.call returns a list of outcomes), which gives
branch refinement for free.  Loops terminate through a visited set on (block, store) per activation; a
budget bounds the exploration and exhausting it is reported as 'undecided' (fail closed), never as success.
"""
import os
import re
import time as _time
from .. import facts as F


class _Top:
    def __repr__(self):
        return "TOP"


TOP = _Top()


class Const:
    __slots__ = ("v",)

    def __init__(self, v):
        self.v = v

    def __eq__(self, o):
        return isinstance(o, Const) and o.v == self.v and type(o.v) == type(self.v)

    def __hash__(self):
        return hash(("C", self.v))

    def __repr__(self):
        return "Const(%r)" % (self.v,)


UNIT = Const(())


class Agg:
    __slots__ = ("kind", "path", "vi", "vname", "fields", "_h")

    def __init__(self, kind, path, vi, vname, fields):
        self.kind, self.path, self.vi, self.vname, self.fields = kind, path, vi, vname, tuple(fields)
        self._h = None

    def _k(self):
        return (self.kind, self.path, self.vi, self.fields)

    def __eq__(self, o):
        return o is self or (isinstance(o, Agg) and hash(o) == hash(self) and o._k() == self._k())

    def __hash__(self):
        # values are immutable: the hash of a (possibly deep) value is computed once
        h = self._h
        if h is None:
            h = self._h = hash(self._k())
        return h

    def __repr__(self):
        nm = self.path or self.kind
        if self.vname and self.vname != (self.path or "").split("::")[-1]:
            nm += "::" + self.vname
        return "%s{%s}" % (nm, ", ".join(repr(f) for f in self.fields))

    def with_field(self, i, v):
        fs = list(self.fields)
        while len(fs) <= i:
            fs.append(TOP)
        fs[i] = v
        return Agg(self.kind, self.path, self.vi, self.vname, fs)

    def field(self, i):
        return self.fields[i] if i < len(self.fields) else TOP


def enum(path, vi, vname, *fields):
    return Agg("adt", path, vi, vname, fields)


def some(v):
    return enum("std::option::Option", 1, "Some", v)


NONE = enum("std::option::Option", 0, "None")


def ok(v):
    return enum("std::result::Result", 0, "Ok", v)


def err(v):
    return enum("std::result::Result", 1, "Err", v)


class Ref:
    __slots__ = ("frame", "local", "proj")

    def __init__(self, frame, local, proj=()):
        self.frame, self.local, self.proj = frame, local, tuple(proj)

    def _k(self):
        return (self.frame, self.local, self.proj)

    def __eq__(self, o):
        return isinstance(o, Ref) and o._k() == self._k()

    def __hash__(self):
        return hash(("R",) + self._k())

    def __repr__(self):
        return "&f%d._%d%s" % (self.frame, self.local, "".join(".%d" % p for p in self.proj))


class FnV:
    __slots__ = ("path",)

    def __init__(self, path):
        self.path = path

    def __eq__(self, o):
        return isinstance(o, FnV) and o.path == self.path

    def __hash__(self):
        return hash(("Fn", self.path))

    def __repr__(self):
        return "fn " + self.path


class StaticRef:
    """Pointer to a static item (resolved by the domain / tables when dereferenced)."""
    __slots__ = ("path",)

    def __init__(self, path):
        self.path = path

    def __eq__(self, o):
        return isinstance(o, StaticRef) and o.path == self.path

    def __hash__(self):
        return hash(("St", self.path))

    def __repr__(self):
        return "&static " + self.path


class Undecided(Exception):
    pass


class Outcome:
    """End of one explored path through an activation.  A 'stop' outcome inside an inlined callee carries the suspended
    callers (`cont`: [(body, depth, block of the call)], outermost first) and `where` = (callee body, its depth)."""
    __slots__ = ("kind", "value", "store", "site", "trace", "cont", "where")

    def __init__(self, kind, value, store, site=None, trace=(), cont=(), where=None):
        self.kind, self.value, self.store, self.site, self.trace = kind, value, store, site, trace
        self.cont = tuple(cont)
        self.where = where

    def __repr__(self):
        return "<%s %r @%s>" % (self.kind, self.value, self.site)


class _Outs:
    """Outcomes of one activation, de-duplicated after dropping the activation's own locals."""

    def __init__(self, frame):
        self.frame = frame
        self.seen = {}

    def keep(self, o):
        key = ("stop", o.value, frozenset(o.store.items()), tuple((b.path, d, k) for b, d, k in o.cont))
        if key not in self.seen:
            self.seen[key] = o

    def append(self, o):
        o.store = {k: v for k, v in o.store.items() if k[0] != self.frame}
        key = (o.kind, _h(o.value), frozenset(o.store.items()))
        if key not in self.seen:
            self.seen[key] = o

    def list(self):
        return list(self.seen.values())


def _h(v):
    try:
        hash(v)
        return v
    except TypeError:
        return repr(v)


class Domain:
    """Override `call` (and optionally the others) in concrete domains."""

    inline_depth = 4

    def call(self, it, name, args, store, term, frame):
        """Return None (not handled) or a list of (value, store) outcomes; to signal a panic return
        [("panic", store)]."""
        return None

    def binop(self, op, a, b):
        return None

    def unop(self, op, a):
        return None

    def cast(self, kind, v, ty):
        return None

    def deref_static(self, it, path):
        return TOP

    def should_inline(self, name):
        return True

    def on_indirect(self, it, fval, args, store, term, frame):
        return None


class Interp:
    def __init__(self, facts, domain, budget=200000, wall=None):
        import time as _t
        # wall-clock limit of one interpreter (all its runs): exhausting it is 'undecided', like the step budget
        self.deadline = _t.time() + float(wall if wall is not None else os.environ.get("VERIF_INTERP_WALL", "120"))
        self.facts = facts
        self.dom = domain
        self.budget = budget
        self.steps = 0
        self.next_frame = 0
        self.notes = []  # (kind, text) diagnostic notes, e.g. unknown callees
        self.visited_calls = set()

    # ---- store -------------------------------------------------------------------------------
    def new_frame(self):
        self.next_frame += 1
        return self.next_frame

    @staticmethod
    def sget(store, frame, local):
        return store.get((frame, local), TOP)

    @staticmethod
    def sset(store, frame, local, v):
        s = dict(store)
        s[(frame, local)] = v
        return s

    def read_ref(self, store, r):
        if not isinstance(r, Ref):
            return r  # opaque values are pointer-transparent
        v = self.sget(store, r.frame, r.local)
        for i in r.proj:
            v = self._field(store, v, i)
        return v

    def _field(self, store, v, i):
        if isinstance(v, Agg):
            return v.field(i)
        if v is TOP:
            return TOP
        f = getattr(self.dom, "field_of", None)
        if f is not None:
            return f(v, i)
        return TOP

    def write_ref(self, store, r, val):
        if not isinstance(r, Ref):
            return store  # writing through an opaque pointer: nothing we track
        base = self.sget(store, r.frame, r.local)
        return self.sset(store, r.frame, r.local, self._upd(base, r.proj, val))

    def _upd(self, base, proj, val):
        if not proj:
            return val
        i = proj[0]
        if not isinstance(base, Agg):
            base = Agg("partial", None, None, None, ())
        return base.with_field(i, self._upd(base.field(i), proj[1:], val))

    # ---- places ------------------------------------------------------------------------------
    def place_ref(self, store, frame, place):
        """Resolve a place to a Ref (or to an opaque value when it goes through an opaque pointer)."""
        cur = Ref(frame, place["local"], ())
        for e in place["proj"]:
            k = e["k"]
            if k == "deref":
                v = self.read_ref(store, cur) if isinstance(cur, Ref) else cur
                if isinstance(v, Ref):
                    cur = v
                elif isinstance(v, StaticRef):
                    cur = self.dom.deref_static(self, v.path)
                else:
                    cur = v  # opaque / TOP
            elif k == "field":
                if isinstance(cur, Ref):
                    cur = Ref(cur.frame, cur.local, cur.proj + (e["i"],))
                else:
                    cur = self._field(store, cur, e["i"])
            elif k == "downcast":
                pass
            elif k == "index":
                # a[i] with i a constant on this path and a a fixed-size array: the element's own place
                idx = self.sget(store, frame, e["local"])
                base = self.read_ref(store, cur) if isinstance(cur, Ref) else cur
                if not (isinstance(idx, Const) and isinstance(idx.v, int) and not isinstance(idx.v, bool)
                        and isinstance(base, Agg) and base.kind == "array" and 0 <= idx.v < len(base.fields)):
                    return TOP
                cur = Ref(cur.frame, cur.local, cur.proj + (idx.v,)) if isinstance(cur, Ref) else base.field(idx.v)
            elif k == "other" and (e.get("dbg", "").startswith("ConstantIndex") or e.get("dbg", "").startswith("Subslice")):
                # slice patterns: `[first, rest @ ..]`
                d = e["dbg"]
                nums = dict((m_.group(1), m_.group(2)) for m_ in re.finditer(r"(\w+): (\w+)", d))
                v = self.read_ref(store, cur) if isinstance(cur, Ref) else cur
                h = getattr(self.dom, "slice_proj", None)
                r = h(self, store, v, "index" if d.startswith("ConstantIndex") else "subslice", nums) if h is not None else None
                if r is None:
                    from .stdmodels import Seq
                    if isinstance(v, Agg) and v.kind == "array" and v.path is None:
                        v = Seq(v.fields)
                    if isinstance(v, Seq) and nums.get("from_end") == "false" and d.startswith("ConstantIndex"):
                        i_ = int(nums["offset"])
                        r = v.items[i_] if i_ < len(v.items) else TOP
                    elif isinstance(v, Seq) and d.startswith("Subslice") and nums.get("from_end") == "true":
                        r = Seq(v.items[int(nums["from"]):len(v.items) - int(nums["to"])])
                    else:
                        return TOP
                cur = r
            else:
                return TOP
        return cur

    def read_place(self, store, frame, place):
        r = self.place_ref(store, frame, place)
        return self.read_ref(store, r) if isinstance(r, Ref) else r

    def operand(self, store, frame, o):
        k = o["k"]
        if k in ("copy", "move"):
            return self.read_place(store, frame, o["place"])
        if k == "fn":
            return FnV(o["path"])
        if k == "static":
            return StaticRef(o["path"])
        if k == "promoted":
            return self.promoted_value(o["path"], o["index"])
        if k == "const":
            v = F.const_val(o)
            if v is None:
                if o.get("ty") == "()":
                    return UNIT
                bs = F.bytes_const(o)
                if bs is not None:
                    return Const(bs)
                return self.named_const(o)
            if o.get("ty") == "bool":
                return Const(bool(v))
            return Const(v)
        return TOP

    def named_const(self, o):
        """Value of an operand that names a constant item of the crate (`const X: T = ...`), from the item's own MIR."""
        nm = (o.get("dbg") or "").replace("const ", "").strip()
        cache = self.__dict__.setdefault("_consts", {})
        if nm in cache:
            return cache[nm]
        v = TOP
        from .. import tables
        for crate in ("anything", "any"):
            cb = self.facts.fn(nm, crate) if nm else None
            if cb is not None and cb.kind.startswith(("Const", "AssocConst")):
                try:
                    v = self._from_tree(tables.static_value(self.facts, nm, -1, crate))
                except tables.StaticEvalError:
                    v = TOP
                break
        cache[nm] = v
        return v

    def promoted_value(self, path, index):
        """Value of a promoted constant (straight-line MIR), as a core value; TOP when it cannot be evaluated."""
        key = (path, index)
        cache = self.__dict__.setdefault("_prom", {})
        if key in cache:
            return cache[key]
        from .. import tables
        v = TOP
        for crate in ("anything", "any"):
            if self.facts.promoted(path, index, crate) is not None:
                try:
                    v = self._from_tree(tables.static_value(self.facts, path, index, crate))
                except tables.StaticEvalError:
                    v = TOP
                break
        cache[key] = v
        return v

    def _from_tree(self, t):
        if isinstance(t, bool):
            return Const(t)
        if isinstance(t, (int, str)):
            return Const(t)
        if isinstance(t, tuple) and t and t[0] in ("fn", "closure"):
            return FnV(t[1])
        if isinstance(t, list):
            from .stdmodels import Seq
            return Seq([self._from_tree(x) for x in t])
        if isinstance(t, dict):
            vi = None
            a = self.facts.adt(t["adt"]) or self.facts.adt(t["adt"], "any")
            if a is not None:
                for i, v in enumerate(a["variants"]):
                    if v["name"] == t["variant"]:
                        vi = i
            kind = "adt" if t["variant"] is not None else t["adt"]
            return Agg(kind, t["adt"] if t["variant"] is not None else None, vi, t["variant"],
                       [self._from_tree(f) for f in t["fields"]])
        return TOP

    # ---- rvalues -----------------------------------------------------------------------------
    def rvalue(self, store, frame, rv):
        k = rv["k"]
        hook = getattr(self.dom, "rvalue_hook", None)
        if hook is not None:
            r = hook(self, store, frame, rv)
            if r is not None:
                return r
        if k == "use":
            return self.operand(store, frame, rv["op"])
        if k in ("ref", "rawptr"):
            return self.place_ref(store, frame, rv["place"])
        if k == "aggregate":
            kind = rv["kind"]
            ops = [self.operand(store, frame, o) for o in rv["ops"]]
            if kind["k"] == "adt":
                return Agg("adt", kind["path"], kind["vi"], kind["variant"], ops)
            if kind["k"] == "closure":
                return Agg("closure", kind["path"], None, None, ops)
            return Agg(kind["k"], None, None, None, ops)
        if k == "repeat":
            # [x; N]: an array of N copies (small N only; a large buffer stays unknown)
            if rv["n"] <= 64:
                v = self.operand(store, frame, rv["op"])
                return Agg("array", None, None, None, [v] * rv["n"])
            return TOP
        if k == "discr":
            v = self.read_place(store, frame, rv["place"])
            if isinstance(v, Agg) and v.vi is not None:
                return Const(v.vi)
            d = getattr(self.dom, "discr_of", None)
            if d is not None:
                r = d(v)
                if r is not None:
                    return r
            return TOP
        if k == "binop":
            a = self.operand(store, frame, rv["a"])
            b = self.operand(store, frame, rv["b"])
            r = self.dom.binop(rv["op"], a, b)
            if r is not None:
                return r
            return self._binop(rv["op"], a, b)
        if k == "unop":
            a = self.operand(store, frame, rv["a"])
            r = self.dom.unop(rv["op"], a)
            if r is not None:
                return r
            if isinstance(a, Const):
                if rv["op"] == "Not" and isinstance(a.v, bool):
                    return Const(not a.v)
                if rv["op"] == "Neg" and isinstance(a.v, int):
                    return Const(-a.v)
            return TOP
        if k == "cast":
            v = self.operand(store, frame, rv["op"])
            r = self.dom.cast(rv["kind"], v, rv["ty"])
            if r is not None:
                return r
            if isinstance(v, Agg) and v.kind == "closure":
                return FnV(v.path)
            if isinstance(v, (FnV, Ref, StaticRef)):
                return v
            if rv["kind"].startswith("PointerCoercion") and v is not TOP:
                # &[T; N] -> &[T] and friends: the pointee is the same value
                if isinstance(v, Agg) and v.kind == "array":
                    from .stdmodels import Seq
                    return Seq(v.fields)
                return v
            if isinstance(v, Const) and rv["kind"].startswith("IntToInt"):
                return v
            return TOP
        return TOP

    @staticmethod
    def _binop(op, a, b):
        if isinstance(a, Const) and isinstance(b, Const) and not isinstance(a.v, str) and not isinstance(b.v, str) \
                and a.v != () and b.v != ():
            x, y = a.v, b.v
            try:
                if op in ("Add", "AddUnchecked"):
                    return Const(x + y)
                if op in ("Sub", "SubUnchecked"):
                    return Const(x - y)
                if op in ("Mul", "MulUnchecked"):
                    return Const(x * y)
                if op in ("AddWithOverflow", "SubWithOverflow", "MulWithOverflow"):
                    r = {"Add": x + y, "Sub": x - y, "Mul": x * y}[op[:3]]
                    return Agg("tuple", None, None, None, (Const(r), Const(False)))
                if op == "Eq":
                    return Const(x == y)
                if op == "Ne":
                    return Const(x != y)
                if op == "Lt":
                    return Const(x < y)
                if op == "Le":
                    return Const(x <= y)
                if op == "Gt":
                    return Const(x > y)
                if op == "Ge":
                    return Const(x >= y)
                if op in ("Div", "Rem") and isinstance(x, int) and isinstance(y, int) and not isinstance(x, bool) and y != 0:
                    # Rust semantics: truncation toward zero, the remainder takes the sign of the dividend
                    q = abs(x) // abs(y) * (1 if (x >= 0) == (y >= 0) else -1)
                    return Const(q if op == "Div" else x - q * y)
                if op == "BitAnd" and isinstance(x, bool):
                    return Const(x and y)
                if op == "BitOr" and isinstance(x, bool):
                    return Const(x or y)
            except TypeError:
                return TOP
        if op in ("AddWithOverflow", "SubWithOverflow", "MulWithOverflow"):
            return Agg("tuple", None, None, None, (TOP, Const(False)))
        return TOP

    # ---- running -----------------------------------------------------------------------------
    def run(self, body, args, store, depth=0, start=None, stop=()):
        """Explore `body` with argument values `args`; returns a list of Outcome.
        start=(block id, store): resume an activation of this body (same frame) at that block.
        stop: block ids at which exploration ends with an Outcome of kind 'stop' (value = block id, full store)."""
        frame = depth + 1
        if start is None:
            st = {k: v for k, v in store.items() if k[0] != frame}
            for i, a in enumerate(args):
                st[(frame, i + 1)] = a
        else:
            st = dict(start[1])
        live = getattr(body, "_live", None)
        if live is None:
            from .. import cfg as _cfg
            live = body._live = _cfg.liveness(body)
        live_in, addr = live
        outs = _Outs(frame)
        visited = set()
        work = [(0 if start is None else start[0], st)]
        first = True
        while work:
            bid, st = work.pop()
            if bid in stop and not (first and start is not None):
                outs.keep(Outcome("stop", bid, st, body.site(body.blocks[bid]["term"]["span"])))
                continue
            first = False
            keep = live_in[bid]
            st = {k: v for k, v in st.items() if k[0] != frame or k[1] in keep or k[1] in addr}
            key = (bid, self._freeze(st, frame))
            if key in visited:
                continue
            visited.add(key)
            self.steps += 1
            if self.steps > self.budget:
                raise Undecided("exploration budget exhausted in %s" % body.path)
            if (self.steps & 63) == 0 and _time.time() > self.deadline:
                raise Undecided("exploration time limit reached in %s" % body.path)
            b = body.blocks[bid]
            for s in b["stmts"]:
                if s["k"] == "assign":
                    v = self.rvalue(st, frame, s["rv"])
                    r = self.place_ref(st, frame, s["place"])
                    if isinstance(r, Ref):
                        st = self.write_ref(st, r, v)
                elif s["k"] == "setdiscr":
                    pass
            t = b["term"]["t"]
            sp = b["term"]["span"]
            k = t["k"]
            if k == "goto":
                work.append((t["target"], st))
            elif k == "drop":
                work.append((t["target"], st))
            elif k == "return":
                outs.append(Outcome("ret", self.sget(st, frame, 0), st, body.site(sp)))
            elif k == "unreachable":
                pass
            elif k == "assert":
                c = self.operand(st, frame, t["cond"])
                if isinstance(c, Const) and bool(c.v) != bool(t["expected"]):
                    outs.append(Outcome("panic", t["msg"], st, body.site(sp)))
                elif isinstance(c, Const):
                    work.append((t["target"], st))
                else:
                    h = getattr(self.dom, "on_assert", None)
                    if h is None or h(self, body, t, sp, st, frame):
                        outs.append(Outcome("maypanic", t["msg"], st, body.site(sp)))
                    work.append((t["target"], st))
            elif k == "switch":
                d = self.operand(st, frame, t["discr"])
                if isinstance(d, Const) and isinstance(d.v, (int, bool)):
                    dv = int(d.v)
                    tgt = t["otherwise"]
                    for v, x in t["targets"]:
                        if int(v) == dv:
                            tgt = x
                            break
                    work.append((tgt, st))
                elif getattr(self.dom, "split_switch", None) is not None and d is not TOP:
                    for tgt, st2 in self.dom.split_switch(self, d, t, st):
                        work.append((tgt, st2))
                else:
                    seen = set()
                    for v, x in t["targets"]:
                        if x not in seen:
                            seen.add(x)
                            work.append((x, st))
                    if t["otherwise"] not in seen:
                        work.append((t["otherwise"], st))
            elif k == "call":
                for kind, v, st2 in self._call(body, frame, t, sp, st, depth):
                    if kind == "stop":
                        # a stop point inside an inlined callee: suspend this activation at the call
                        outs.keep(Outcome("stop", v.value, st2, v.site, cont=((body, depth, bid),) + v.cont, where=v.where))
                        continue
                    if kind == "panic":
                        outs.append(Outcome("panic", v, st2, body.site(sp)))
                        continue
                    if t["target"] < 0:
                        outs.append(Outcome("panic", F.callee(t) or "diverging call", st2, body.site(sp)))
                        continue
                    r = self.place_ref(st2, frame, t["dest"])
                    if isinstance(r, Ref):
                        st2 = self.write_ref(st2, r, v)
                    work.append((t["target"], st2))
            else:
                pass
        return outs.list()

    def _freeze(self, st, frame):
        return frozenset(st.items())

    def resume(self, o, store, top_stop=()):
        """Continue from a nested 'stop' outcome `o` (see Outcome.cont / where) with `store`: explores the callee from its
        stop block, and on its return continues the suspended callers.  Returns outcomes as `run` does."""
        callee, cdepth = o.where
        block = o.value[1]
        return self._resume(list(o.cont), callee, cdepth, block, store, top_stop)

    def _resume(self, cont, body, depth, block, store, top_stop):
        gs = getattr(self, "global_stops", None) or {}
        stops = gs.get(body.path, ()) if cont else top_stop
        res = []
        for o in self.run(body, [], {}, depth=depth, start=(block, store), stop=stops):
            if o.kind == "stop":
                if cont and not isinstance(o.value, tuple):
                    o = Outcome("stop", (body.path, o.value), o.store, o.site, cont=tuple(cont) + o.cont, where=(body, depth))
                elif cont:
                    o = Outcome("stop", o.value, o.store, o.site, cont=tuple(cont) + o.cont, where=o.where)
                res.append(o)
            elif o.kind == "ret" and cont:
                pbody, pdepth, pblock = cont[-1]
                t = pbody.blocks[pblock]["term"]["t"]
                st2 = o.store
                if t["target"] < 0:
                    res.append(Outcome("panic", "diverging call", st2, o.site))
                    continue
                r = self.place_ref(st2, pdepth + 1, t["dest"])
                if isinstance(r, Ref):
                    st2 = self.write_ref(st2, r, o.value)
                res.extend(self._resume(cont[:-1], pbody, pdepth, t["target"], st2, top_stop))
            else:
                res.append(o)
        return res

    def ctor_value(self, path, args):
        """`Some` / `Ok` / `Err` / a tuple-variant or tuple-struct constructor of the crate used as a function."""
        last = path.rsplit("::", 1)[-1]
        if path.startswith("std::") or path.startswith("core::"):
            if last == "Some" and len(args) == 1:
                return some(args[0])
            if last == "Ok" and len(args) == 1:
                return ok(args[0])
            if last == "Err" and len(args) == 1:
                return err(args[0])
            return None
        owner = path.rsplit("::", 1)[0] if "::" in path else ""
        for crate in ("anything", "any"):
            a = self.facts.adt(owner, crate)
            if a is not None:
                for i, v in enumerate(a["variants"]):
                    if v["name"] == last and len(v["fields"]) == len(args):
                        return Agg("adt", owner, i, last, tuple(args))
            a = self.facts.adt(path, crate)
            if a is not None and not a["is_enum"] and len(a["variants"][0]["fields"]) == len(args):
                return Agg("adt", path, 0, a["variants"][0]["name"], tuple(args))
        return None

    def apply_closure(self, clos, args, st, depth):
        """Call a closure value (Agg kind 'closure') or fn item with the given argument values."""
        path = clos.path if isinstance(clos, (Agg, FnV)) else None
        body = self.facts.fn(path) if path else None
        if body is None and isinstance(clos, FnV):
            v = self.ctor_value(path, list(args))
            if v is not None:
                return [("ret", v, st)]
        if body is None or depth >= self.dom.inline_depth + 2:
            return None
        if isinstance(clos, Agg):
            env = clos
            if body.arg_count >= 1 and body.local_ty(1).startswith("&"):
                n = self.__dict__.setdefault("_tmp", 1000)
                self._tmp = n + 1
                st = self.sset(st, 0, n, clos)
                env = Ref(0, n)
            argv = [env] + list(args)
        else:
            argv = list(args)
            if "{closure#" in path.rsplit("::", 1)[-1] and body.arg_count == len(argv) + 1:
                argv = [UNIT] + argv
        res = []
        for o in self.run(body, argv, st, depth + 1):
            if o.kind == "ret":
                res.append(("ret", o.value, o.store))
            else:
                res.append(("panic", "%s in closure %s at %s" % (o.value, path, o.site), o.store))
        return res

    def fresh_slot(self, st, value):
        """A new addressable temporary holding `value`: (store', Ref)."""
        n = self.__dict__.setdefault("_tmp", 1000)
        self._tmp = n + 1
        return self.sset(st, 0, n, value), Ref(0, n)

    def call_named(self, name, args, st, depth, crate="anything", skip_std=False):
        """Call a function by its resolved path with argument values (domain first, std models, then inlining).
        skip_std: the caller *is* a std model that wants the function's own body (no way back into the std models)."""
        t = {"k": "call", "callee": {"k": "direct", "path": name, "resolved": name}, "args": [], "target": 0, "dest": {"local": 0, "proj": []}}
        if skip_std:
            self._cur_depth = depth
            self._no_std = getattr(self, "_no_std", 0) + 1
            prev = getattr(self, "_no_std_name", None)
            self._no_std_name = name
            try:
                return self._dispatch(name, args, st, depth, t, None, None, crate, 0)
            finally:
                self._no_std -= 1
                self._no_std_name = prev
        return self._dispatch(name, args, st, depth, t, None, None, crate, 0)

    def _call(self, body, frame, t, sp, st, depth):
        self._cur_depth = depth
        args = [self.operand(st, frame, a) for a in t["args"]]
        name = F.callee(t)
        if not name:
            fval = self.operand(st, frame, t["callee"]["op"])
            r = self.dom.on_indirect(self, fval, args, st, t, frame)
            if r is not None:
                return self._norm(r)
            if isinstance(fval, FnV):
                name = fval.path
            elif isinstance(fval, Agg) and fval.kind == "closure":
                r = self.apply_closure(fval, args, st, depth)
                if r is not None:
                    return r
                return [("ret", TOP, self.havoc(st, args))]
            else:
                self.notes.append(("indirect", "%s: indirect call through %r" % (body.site(sp), fval)))
                return [("ret", TOP, self.havoc(st, args))]
        return self._dispatch(name, args, st, depth, t, body, sp, body.crate, frame)

    def _dispatch(self, name, args, st, depth, t, body, sp, crate, frame):
        # closures called through the Fn* traits: (callable, (args...))
        if (name.endswith("FnOnce<Args>>::call_once") or name.endswith("FnMut<Args>>::call_mut") or name.endswith("Fn<Args>>::call")
                or name in ("std::ops::FnOnce::call_once", "std::ops::FnMut::call_mut", "std::ops::Fn::call")) and len(args) == 2:
            f = self.read_ref(st, args[0])
            tup = self.read_ref(st, args[1])
            if isinstance(f, (Agg, FnV)) and isinstance(tup, Agg) and tup.kind == "tuple":
                r = self.apply_closure(f, list(tup.fields), st, depth)
                if r is not None:
                    return r
                if isinstance(f, FnV) and self.facts.fn(f.path) is None:
                    # a function item of another crate passed as a callable (`char::is_whitespace`): the call itself
                    return self._dispatch(f.path, list(tup.fields), st, depth, t, body, sp, crate, frame)
        self._cur_depth = depth
        self._cur_body = body
        r = self.dom.call(self, name, args, st, t, frame)
        if r is not None:
            return self._norm(r)
        self._cur_depth = depth
        r = self.std_call(name, args, st)
        if r is not None:
            return self._norm(r)
        callee = self.facts.fn(name, crate) or self.facts.fn(name)
        if callee is not None and depth < self.dom.inline_depth and self.dom.should_inline(name):
            res = []
            if "{closure#" in name.rsplit("::", 1)[-1] and callee.arg_count == len(args) + 1:
                # a non-capturing closure called through a fn pointer: its body still takes the (empty) environment first
                args = [UNIT] + list(args)
            gs = getattr(self, "global_stops", None) or {}
            for o in self.run(callee, args, st, depth + 1, stop=gs.get(callee.path, ())):
                if o.kind == "stop":
                    if not isinstance(o.value, tuple):
                        o = Outcome("stop", (callee.path, o.value), o.store, o.site, cont=o.cont, where=(callee, depth + 1))
                    res.append(("stop", o, o.store))
                    continue
                if o.kind == "ret":
                    res.append(("ret", o.value, o.store))
                elif o.kind == "panic":
                    res.append(("panic", "%s (in %s at %s)" % (o.value, name, o.site), o.store))
                else:
                    res.append(("panic", "may panic: %s (in %s at %s)" % (o.value, name, o.site), o.store))
            return res
        self.notes.append(("unknown", "%s: unknown callee %s" % (body.site(sp) if body is not None else "", name)))
        if t["target"] < 0:
            return [("panic", name, st)]
        return [("ret", TOP, self.havoc(st, args))]

    @staticmethod
    def _norm(r):
        out = []
        for x in r:
            if len(x) == 2:
                if x[0] == "panic":
                    out.append(("panic", "panic", x[1]))
                else:
                    out.append(("ret", x[0], x[1]))
            else:
                out.append(x)
        return out

    def havoc(self, st, args):
        """An unknown callee may write through any reference it is given."""
        for a in args:
            if isinstance(a, Ref):
                st = self.write_ref(st, a, TOP)
        return st

    # ---- std models shared by all domains ---------------------------------------------------------
    def std_call(self, name, args, st):
        n = name
        if getattr(self, "_no_std", 0) and getattr(self, "_no_std_name", None) == name:
            return None
        if n.endswith("as std::clone::Clone>::clone") or n == "std::clone::Clone::clone":
            return [(self.read_ref(st, args[0]), st)]
        if n.endswith("as std::ops::Try>::branch") or n == "std::ops::Try::branch":
            v = args[0]
            if isinstance(v, Agg) and v.path == "std::result::Result":
                if v.vi == 0:
                    return [(enum("std::ops::ControlFlow", 0, "Continue", v.field(0)), st)]
                return [(enum("std::ops::ControlFlow", 1, "Break", err(v.field(0))), st)]
            if isinstance(v, Agg) and v.path == "std::option::Option":
                if v.vi == 1:
                    return [(enum("std::ops::ControlFlow", 0, "Continue", v.field(0)), st)]
                return [(enum("std::ops::ControlFlow", 1, "Break", NONE), st)]
            return [(enum("std::ops::ControlFlow", 0, "Continue", TOP), st),
                    (enum("std::ops::ControlFlow", 1, "Break", TOP), st)]
        if n.endswith("as std::ops::FromResidual<std::result::Result<std::convert::Infallible, E>>>::from_residual") \
                or "FromResidual" in n and "from_residual" in n:
            v = args[0]
            if isinstance(v, Agg) and v.path in ("std::result::Result", "std::option::Option"):
                return [(v, st)]
            return [(TOP, st)]
        if n == "std::option::Option::<T>::and_then" and len(args) == 2 and isinstance(args[0], Agg) \
                and args[0].path == "std::option::Option":
            if args[0].vi == 0:
                return [(NONE, st)]
            r = self.apply_closure(args[1], [args[0].field(0)], st, getattr(self, "_cur_depth", 0))
            if r is not None:
                return r
        if n == "std::option::Option::<T>::map" and len(args) == 2 and isinstance(args[0], Agg) \
                and args[0].path == "std::option::Option":
            if args[0].vi == 0:
                return [(NONE, st)]
            r = self.apply_closure(args[1], [args[0].field(0)], st, getattr(self, "_cur_depth", 0))
            if r is not None:
                return [(k, some(v) if k == "ret" else v, s2) for k, v, s2 in r]
        if n in ("std::result::Result::<T, E>::map_err", "std::result::Result::<T, E>::map", "std::result::Result::<T, E>::and_then",
                 "std::result::Result::<T, E>::or_else") and len(args) == 2 \
                and isinstance(args[0], Agg) and args[0].path == "std::result::Result":
            r0 = args[0]
            on_ok = n.endswith("::map") or n.endswith("::and_then")
            if (r0.vi == 0) != on_ok:
                return [(r0, st)]
            r = self.apply_closure(args[1], [r0.field(0)], st, getattr(self, "_cur_depth", 0))
            if r is not None:
                wrap = {"map_err": err, "map": ok}.get(n.rsplit("::", 1)[-1], lambda v: v)
                return [(k, wrap(v) if k == "ret" else v, s2) for k, v, s2 in r]
        if n in ("std::option::Option::<T>::ok_or_else", "std::option::Option::<T>::unwrap_or_else", "std::option::Option::<T>::map_or",
                 "std::option::Option::<T>::ok_or", "std::option::Option::<T>::unwrap_or") and isinstance(args[0], Agg) \
                and args[0].path == "std::option::Option":
            o = args[0]
            m = n.rsplit("::", 1)[-1]
            if m == "ok_or":
                return [(ok(o.field(0)) if o.vi == 1 else err(args[1]), st)]
            if m == "unwrap_or":
                return [(o.field(0) if o.vi == 1 else args[1], st)]
            if m == "ok_or_else":
                if o.vi == 1:
                    return [(ok(o.field(0)), st)]
                r = self.apply_closure(args[1], [], st, getattr(self, "_cur_depth", 0))
                if r is not None:
                    return [(k, err(v) if k == "ret" else v, s2) for k, v, s2 in r]
            if m == "unwrap_or_else":
                if o.vi == 1:
                    return [(o.field(0), st)]
                r = self.apply_closure(args[1], [], st, getattr(self, "_cur_depth", 0))
                if r is not None:
                    return r
            if m == "map_or" and len(args) == 3:
                if o.vi == 0:
                    return [(args[1], st)]
                r = self.apply_closure(args[2], [o.field(0)], st, getattr(self, "_cur_depth", 0))
                if r is not None:
                    return r
        if n.endswith("::transpose") and "Result" in n and len(args) == 1 and isinstance(args[0], Agg) \
                and args[0].path == "std::result::Result":
            r = args[0]
            if r.vi == 1:
                return [(some(err(r.field(0))), st)]
            inner = r.field(0)
            if isinstance(inner, Agg) and inner.path == "std::option::Option":
                return [(NONE if inner.vi == 0 else some(ok(inner.field(0))), st)]
        if n.rsplit("::", 1)[-1] in ("as_ref", "as_mut", "as_deref", "as_deref_mut") and n.startswith("std::option::Option::<") and len(args) == 1:
            # Option<T> behind a reference -> Option<reference to the payload>
            a0 = args[0]
            v0 = self.read_ref(st, a0) if isinstance(a0, Ref) else a0
            if isinstance(v0, Agg) and v0.path == "std::option::Option":
                if v0.vi == 0:
                    return [(NONE, st)]
                p0 = v0.field(0)
                if isinstance(p0, Ref):
                    return [(some(p0), st)]
                if isinstance(a0, Ref):
                    return [(some(Ref(a0.frame, a0.local, a0.proj + (0,))), st)]
                return [(some(p0), st)]
        # the small conversions between Option and Result, on values of known shape
        if len(args) >= 1 and isinstance(args[0], Agg) and args[0].path == "std::result::Result":
            r0 = args[0]
            m = n.rsplit("::", 1)[-1]
            if n.startswith("std::result::Result::<T, E>::"):
                if m == "ok" and len(args) == 1:
                    return [(some(r0.field(0)) if r0.vi == 0 else NONE, st)]
                if m == "err" and len(args) == 1:
                    return [(some(r0.field(0)) if r0.vi == 1 else NONE, st)]
                if m in ("is_ok", "is_err") and len(args) == 1:
                    return [(Const((r0.vi == 0) == (m == "is_ok")), st)]
                if m == "unwrap_or_default" and r0.vi == 0:
                    return [(r0.field(0), st)]
        if len(args) >= 1 and isinstance(args[0], Agg) and args[0].path == "std::option::Option":
            o0 = args[0]
            m = n.rsplit("::", 1)[-1]
            if n.startswith("std::option::Option::<T>::") or n.startswith("std::option::Option::<std::"):
                if m in ("is_some", "is_none") and len(args) == 1:
                    return [(Const((o0.vi == 1) == (m == "is_some")), st)]
                if m == "transpose" and len(args) == 1:
                    # Option<Result<T, E>> -> Result<Option<T>, E>
                    if o0.vi == 0:
                        return [(ok(NONE), st)]
                    inner = o0.field(0)
                    if isinstance(inner, Agg) and inner.path == "std::result::Result":
                        return [(ok(some(inner.field(0))) if inner.vi == 0 else err(inner.field(0)), st)]
                if m == "flatten" and len(args) == 1:
                    if o0.vi == 0:
                        return [(NONE, st)]
                    if isinstance(o0.field(0), Agg) and o0.field(0).path == "std::option::Option":
                        return [(o0.field(0), st)]
                if m in ("and_then", "filter", "or_else") and len(args) == 2:
                    if (o0.vi == 0) != (m == "or_else"):
                        return [(o0, st)] if m != "or_else" else None
                    if m == "or_else":
                        return self.apply_closure(args[1], [], st, getattr(self, "_cur_depth", 0))
                    if m == "and_then":
                        return self.apply_closure(args[1], [o0.field(0)], st, getattr(self, "_cur_depth", 0))
        if n in ("core::bool::<impl bool>::then_some", "core::bool::<impl bool>::then") and len(args) == 2 \
                and not isinstance(args[0], Const) and args[0] is not TOP and getattr(self.dom, "fork", None) is not None:
            outs_ = []
            for b_, st_ in self.dom.fork(st, args[0]):
                r_ = self.std_call(n, [b_, args[1]], st_)
                if r_ is None:
                    return None
                outs_.extend(self._norm(r_))
            return outs_
        if n in ("core::bool::<impl bool>::then_some", "core::bool::<impl bool>::then") and len(args) == 2 and isinstance(args[0], Const) \
                and isinstance(args[0].v, (bool, int)):
            if not args[0].v:
                return [(NONE, st)]
            if n.endswith("then_some"):
                return [(some(args[1]), st)]
            r = self.apply_closure(args[1], [], st, getattr(self, "_cur_depth", 0))
            if r is not None:
                return [(k, some(v) if k == "ret" else v, s2) for k, v, s2 in r]
        if n == "std::option::Option::<T>::take" and len(args) == 1:
            old = self.read_ref(st, args[0])
            return [(old, self.write_ref(st, args[0], NONE))]
        if n in ("std::mem::take", "std::mem::replace"):
            old = self.read_ref(st, args[0])
            new = args[1] if n.endswith("replace") else TOP
            if n.endswith("take") and isinstance(old, Const) and isinstance(old.v, bool):
                new = Const(False)
            return [(old, self.write_ref(st, args[0], new))]
        if n.endswith("as std::convert::From<T>>::from") or n.endswith("as std::convert::Into<U>>::into"):
            return [(args[0], st)]
        # integer intrinsics on constants
        if n.startswith("core::num::<impl ") and len(args) in (1, 2) and all(
                isinstance(a, Const) and isinstance(a.v, int) and not isinstance(a.v, bool) for a in args):
            ty = n[len("core::num::<impl "):].split(">", 1)[0]
            m = n.rsplit("::", 1)[-1]
            bits = {"u8": 8, "u16": 16, "u32": 32, "u64": 64, "usize": 64, "u128": 128, "i8": 8, "i16": 16, "i32": 32, "i64": 64,
                    "isize": 64, "i128": 128}.get(ty)
            if bits is not None:
                lo, hi = (0, 2 ** bits - 1) if ty.startswith("u") else (-2 ** (bits - 1), 2 ** (bits - 1) - 1)
                x = args[0].v
                y = args[1].v if len(args) == 2 else None
                base = m.split("_", 1)[1] if "_" in m else m
                val = {"add": lambda: x + y, "sub": lambda: x - y, "mul": lambda: x * y}.get(base, lambda: None)() if y is not None else None
                if val is not None:
                    if m.startswith("saturating_"):
                        return [(Const(max(lo, min(hi, val))), st)]
                    if m.startswith("checked_"):
                        return [(some(Const(val)) if lo <= val <= hi else NONE, st)]
                    if m.startswith("wrapping_"):
                        w = (val - lo) % (hi - lo + 1) + lo
                        return [(Const(w), st)]
                if m in ("min", "max") and y is not None:
                    return [(Const(min(x, y) if m == "min" else max(x, y)), st)]
                if m in ("abs", "unsigned_abs") and y is None:
                    return [(Const(abs(x)), st)]
                if m == "abs_diff" and y is not None:
                    return [(Const(abs(x - y)), st)]
        if n in ("std::cmp::min", "std::cmp::max", "std::cmp::Ord::min", "std::cmp::Ord::max") and len(args) == 2 and all(
                isinstance(a, Const) and isinstance(a.v, int) for a in args):
            return [(Const(min(args[0].v, args[1].v) if n.endswith("min") else max(args[0].v, args[1].v)), st)]
        from . import stdmodels
        r = stdmodels.call(self, n, args, st)
        if r is not None:
            return r
        if n.endswith("as std::ops::Deref>::deref") or n.endswith("as std::convert::AsRef<T>>::as_ref"):
            return None
        return None
